#!/usr/bin/env python3
"""Regenerates /verif/MANIFEST.json from the table below (single source of truth)."""
import json
TECH = "deterministic simulation with fault injection (seeded schedules over one real soroban host per run, reference model, ledger digest, ddmin replay)"
NOTE = "Trusted: soroban-env-host 22.1 test host (auth matching, rollback, TTL, budget abort), stellar-xdr, sha3/sha2, ed25519-dalek, the harness's own models and encoders. Contracts run natively, not as wasm (tokens deployed by ITS and upgrade targets are the repository's pre-built wasm)."
SUFFIX = " Sampling, not enumeration: a clean batch is evidence, not proof."
props = {
 "C06": "Seeded simulation in worlds G, T, S, O, I and U with the operation mix biased to administrative entry points and to role-transfer histories (incl. transfer to self and back); each attempt carries an exactly specified authorisation forest from one candidate principal (current holder, former holder, holder of another role, beneficiary, stranger, nobody, right holder for other arguments); success iff the model's current holder authorised exactly that call; refused calls must leave the whole-ledger digest unchanged; role getters checked after every step.",
 "C07": "Seeded simulation in worlds T, S, G, O and I over every entry point that debits, burns, pays gas from, sends as, consumes for, deploys under or executes as a named address, with exactly specified authorisation forests (named address, counterparty, owner, stranger, nobody, other arguments, root-only without the nested token transfer / burn / gas payment); contract-as-caller paths are exercised on the positive side; refused calls must leave the ledger digest unchanged.",
 "C15": "Seeded simulation of upgrade/migrate sequences by owner, former owner, stranger and nobody on each of the five production contracts, a harness contract using the tree's derives and a copy of the repository's dummy, with pre-built wasm upgrade targets, plus Upgrader calls over requested version (same/correct/wrong), authorisation coverage of the two nested steps and migration data typing; a state-machine model (code, window, owner, version); failed Upgrader calls must leave the target's ledger entries bit-identical.",

 "C04": "Seeded simulation of the token service behind a real gateway: a hub stub (independent ABI encoder) builds, has approved and delivers inbound messages, each with at most one deviation from a conforming delivery (never/otherwise approved, wrong chain/address/wrapper/type, untrusted origin, unknown token, undecodable fields, out-of-range amount, wire corruption, duplicate delivery), interleaved with trusted-chain changes; any deviation must be refused with the whole-ledger digest unchanged. One deviation (hub address never compared) is a recorded known finding.",
 "C05": "Seeded simulation of deployments, canonical registrations, outbound transfers (burn and lock paths, boundary amounts, gas in the same or another token, Byzantine authorisation trees) and approved inbound transfers against a ledger model; custody and supply equations and every touched balance after each step; the announced payload must equal the independent ABI encoding byte for byte.",
 "C10": "World C: the repository's codec against an independent hand-written Solidity-ABI encoder on generated messages (byte-exact encoding, round trip) and on hostile bytes (bit flips, offset/length/tag/amount edits, truncation, trailing bytes, random): never crashes, and whatever it accepts re-encodes canonically to the input. World I: corrupted payloads approved and delivered in situ. The codec part is a pure function of its input; no schedule dependence is claimed for it.",
 "C11": "Seeded simulation of local deployments (all supply/minter combinations), canonical registrations and remote deploy messages, colliding or not, with independent derivation of salts, ids and deployed addresses; registry checked write-once after every step; each deployed token's id, metadata, owner, exact minter set and initial balance checked, and an inbound transfer to it attempted. The revoked service-minter case is a recorded known finding.",
 "C18": "Seeded simulation of remote deployment requests (own and foreign salts, canonical and unregistered tokens, trusted/untrusted/removed destinations, probe tokens with boundary metadata, gas 0/negative/affordable/unaffordable, payer authorisation trees) against the model; the announced payload must equal the independent encoding of the deploy message with the token's actual metadata and no minter; only the gas payment may move funds.",

 "C01": "Seeded simulation of the real gateway under forged, tampered and misdelivered proofs (other domain, command, batch, set; per-signature corruption; declared-set tampering) and under honest proofs from arbitrary sufficient subsets; an independent XDR/Keccak/Ed25519 oracle decides every submission; refused submissions must leave the ledger digest unchanged.",
 "C02": "Seeded simulation over interleavings of approvals (batched, with duplicates), consumptions, deliveries, status queries, duplicated and aborted submissions, judged against a status-map model; per-id exactly-once and monotone-status history checks; quiescent tail drains every approved message.",
 "C03": "Seeded simulation of rotations and constructions with malformed/duplicate candidates and proofs from latest/old/unknown sets; epoch and both lookups checked mutually inverse after every step; failed calls must leave the ledger digest unchanged (epoch, lookups, rotation clock).",
 "C08": "Seeded simulation of rotation histories with a sweep of proofs from every installed set after rotations (read-only check and approval path), against an epoch-window model; bypass/non-bypass rotation by latest, retained and expired sets.",
 "C09": "Seeded simulation with the simulator owning the ledger clock (boundary -1/0/+1, no progress, far jumps), interleaving bypass and non-bypass rotations, successful and failed, against a last-rotation model.",
 "C12": "Seeded simulation of the native interchain token over interleavings of mint, transfer, approve, delegated transfer/burn, minter and owner changes and ledger advancement (allowance expiry boundaries, temporary-entry TTL), against a ledger model; all balances, allowances, minters, supply equation and events checked after every step.",
 "C13": "Seeded simulation of outbound calls by accounts and by the example contract with exact authorisation forests; the single announcement is compared with an independent Keccak and the gateway's own ledger entries must not change.",
 "C14": "Seeded simulation of pay/top-up/collect/refund over two tokens with boundary amounts and Byzantine authorisation, against a running-balance model; service and user balances and events checked after every step.",
 "C16": "Seeded simulation of deliveries (never approved, mismatching, duplicate, conforming) to the shipped example and to a minimal app using the interface helper; effects iff a matching unexecuted approval exists.",
 "C17": "Seeded simulation of add/remove/ownership histories and forwarded calls (varied arguments and return values, trapping target, target requiring the caller contract's own auth, fee collection through the operators contract) against a set model and the probe target's call log.",
}
checks=[]
for pid,text in sorted(props.items()):
    checks.append({
      "property_id": pid,
      "quick_cmd": "./check %s --tier quick" % pid,
      "thorough_cmd": "./check %s --tier thorough" % pid,
      "evidence_file": "/verif/evidence/%s.json" % pid,
      "replay_cmd_template": "./replay {path}",
      "engine": "axsim",
      "level_claimed": {"category":"exploration","text": text + SUFFIX, "design_ref":"DESIGN.md §3 "+pid},
      "level_note": NOTE,
      "technique": TECH,
    })
all_ids=["C%02d"%i for i in range(1,19)]
na=[{"property_id":p,"reason":"check not built yet (planned: DESIGN.md §3 %s); not claimed until it exists"%p} for p in all_ids if p not in props]
m={"version":1,
 "setup_cmd":"cd /verif/sim && CARGO_NET_OFFLINE=true cargo build --release --offline",
 "hooks":{"guard":"axelar_cgp_soroban_verif","enable":"none needed: every seam used is the soroban-sdk test host's own (no source hook in /repo)","baseline_off_cmd":"cd /repo && cargo test --workspace --no-fail-fast --offline","source_commits":[],"add_only":True},
 "engines":[{"name":"axsim","path":"/verif/sim","serves_properties":sorted(props.keys()),"kind_free_text":"deterministic simulator: one real soroban host per run, seeded xoshiro schedule of symbolic operations with faults (duplicate/stale/misdelivered/corrupted submissions, Byzantine authorisation, budget-exhaustion aborts, clock moves), reference models, whole-ledger digests, ddmin minimisation and replay files"}],
 "checks":checks,
 "not_applicable":na,
 "notes":"See DESIGN.md. known_findings.json lists recorded findings and fixed defects."}
json.dump(m,open('/verif/MANIFEST.json','w'),indent=1)
print("claimed:",sorted(props.keys()))
