#!/usr/bin/env python3
"""tools/mkseedtasks.py <round> <group> [<group> ...]   (group = comma-separated property ids)
Creates one scratch worktree /tmp/w<round>_G<i> of /repo per group with a TASK.md for a fresh
sub-agent: the text of the group's properties, what earlier seeded changes already tried (from
/verif/seeded/*/meta.json, descriptions only), and the deliverables. Nothing else from /verif
is given to the sub-agent."""
import json, subprocess, glob, sys
rnd = sys.argv[1]
groups = [g.split(',') for g in sys.argv[2:]]
props = {}
for l in open('/verif/properties.jsonl'):
    p = json.loads(l); props[p['id']] = p
prior = {}
for f in sorted(glob.glob('/verif/seeded/*/meta.json')):
    m = json.load(open(f)); prior.setdefault(m['breaks_property'], []).append(m['what_it_changes'])
for gi, g in enumerate(groups):
    w = '/tmp/w%s_G%d' % (rnd, gi)
    subprocess.run(['git', '-C', '/repo', 'worktree', 'add', '-q', '--detach', w, 'HEAD'], check=True)
    body = ""
    for pid in g:
        p = props[pid]
        body += f"### {pid}: {p['title']}\n\nStatement: {p['statement']}\n\nQuantified over: {p['quantifier']['text']}\n\nAlready tried for this property (do NOT repeat any of these or close variants):\n" + "\n".join("- " + x for x in prior.get(pid, [])) + "\n\n"
    open(w + '/TASK.md', 'w').write(f"""# Task

You are working in a scratch git worktree of the repository axelarnetwork/axelar-cgp-soroban (Soroban/Stellar smart contracts in Rust: Axelar gateway, gas service, operators, interchain token service (ITS), interchain token, upgrader, example app; shared code in packages/axelar-soroban-std and derive macros in packages/axelar-soroban-std-derive) at {w}. Work ONLY inside {w} (never touch /repo or /verif, and do not read anything under /verif or under any other /tmp/w* directory). There is no network; build and test offline from {w} with

    CARGO_TARGET_DIR={w}/target cargo test --workspace --offline

(always use --workspace: building a single package with -p drops the soroban-sdk testutils feature and does not compile). The first build takes a few minutes. Wasm artefacts under */testdata/*.wasm are pre-built and cannot be rebuilt; in particular tokens deployed by ITS come from a pre-built wasm, so changes to contracts/interchain-token/src do not reach ITS-deployed tokens.

## Properties the code base is supposed to satisfy

{body}
## What to produce

Choose ONE of these properties — the one for which you can find the most SUBTLE violation that has not been tried yet (all else equal prefer the property with the fewest earlier attempts) — and produce ONE realistic source change (a small diff to non-test source files under contracts/ or packages/, the kind of regression a refactoring, clean-up, "hardening" or "optimisation" could plausibly introduce) that BREAKS that property while (a) the workspace still compiles and (b) the ENTIRE existing test suite (`cargo test --workspace --offline`) still passes unchanged. The change must need something SPECIFIC to manifest — a particular multi-step history, an interleaving of different principals' transactions, ledger time or ledger sequence passing, a boundary or otherwise unusual input or deployment configuration, a failing callee, or two cooperating sites that each look fine alone — NOT something that ordinary use or the first call would expose, and not simply deleting a whole check. Many angles have been used already (see the lists); find one that is genuinely different, for instance: a dependency between TWO contracts (how ITS uses the gateway or the gas service, how the operators contract is used as another contract's operator or collector, how the upgrader drives a target), the shared library code in packages/axelar-soroban-std (ttl.rs, token.rs, address.rs, interfaces) or its derive macros, argument values that alias each other, state written by one entry point and read by another, behaviour on the SECOND or N-th use of something, values at the edge of their type, the order in which two checks or two writes happen, a difference between what is checked and what is then used, a difference between what an event or a return value says and what the state says, a difference between account and contract addresses, something that only shows when three contracts are involved, or something that only a getter nobody else reads would reveal. Do not edit existing tests, golden files or wasm artefacts.

Also write a demonstration: a new Rust integration test file placed next to the existing tests of the relevant crate (so it can use that crate's test utilities) that FAILS with your change applied and PASSES on the original code. Verify both directions yourself (toggle the change with `git diff > /tmp/x.diff; git checkout -- <files>` / `git apply`), and verify that the full existing suite passes with the change (without the demo file present).

Deliver, inside {w}/seeded/ :
1. patch.diff — the source change only (`git diff` of the non-test source files), applicable with `git apply` on the original tree.
2. demo.rs — a copy of the demonstration test; its FIRST line must be a comment of the exact form `// PLACE AT: <path relative to repo root> ; TEST NAME: <name to pass to cargo test --test> ; PROPERTY: <C..>`.
3. NOTES.md — which property you chose, what the change is, which clause it breaks, exactly what is needed for it to manifest, and the commands you ran with their outcomes (full suite passes with the change: yes/no; demo fails with change / passes without).

At the end leave the worktree's tracked files in their ORIGINAL state (change reverted, demo test removed from the tests directory, any generated test_snapshots removed; only the untracked seeded/ directory and this TASK.md remain) and delete {w}/target to free disk space. Work efficiently: do not spend more than about 25 minutes; never wait with a loop that greps the process list for your own command. In your final answer name the property, summarise the change in at most 5 lines and report the verification results honestly.
""")
    print(w, g)
