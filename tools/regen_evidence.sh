#!/bin/bash
# Regenerates every /verif/evidence/<id>.json with the quick tier on /repo's current tree.
cd /verif || exit 2
git -C /repo diff --quiet || { echo "/repo has local changes"; exit 2; }
rc=0
for p in C01 C02 C03 C04 C05 C06 C07 C08 C09 C10 C11 C12 C13 C14 C15 C16 C17 C18; do
  ./check $p --tier quick 2>&1 | grep -E "quick:|VIOLATION|harness|note:" | cut -c1-220
  [ ${PIPESTATUS[0]} -eq 0 ] || rc=1
done
exit $rc
