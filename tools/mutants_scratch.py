#!/usr/bin/env python3
"""tools/mutants_scratch.py [--threads T]
Same as tools/mutants.sh (every /verif/mutants/<PROP>__<name>.diff against the property's quick check,
replay of the first replay file) but in a scratch worktree and scratch simulator copy: /repo is not touched.
Writes /verif/mutants/RESULTS.tsv."""
import os, sys, glob, re, shutil
sys.path.insert(0, os.path.dirname(__file__))
import automutate as am
args = sys.argv[1:]
threads = '16'
if '--threads' in args:
    i = args.index('--threads'); threads = args[i + 1]
am.SCRATCH = '/tmp/mr'
os.makedirs(am.SCRATCH, exist_ok=True)
d = am.setup_slot(0)
rows = []
for f in sorted(glob.glob('/verif/mutants/*.diff')):
    b = os.path.basename(f)[:-5]; prop = b.split('__')[0]
    rc, o = am.sh('git apply %s' % f, cwd=d + '/repo')
    if rc != 0:
        rows.append((b, 'APPLY-FAILED')); print(rows[-1], flush=True); continue
    try:
        rc, o = am.sh('cargo build --release --offline', cwd=d + '/sim', timeout=1200)
        if rc != 0:
            rows.append((b, 'BUILD-FAILED')); print(rows[-1], flush=True); continue
        env = {'AXSIM_EVIDENCE_DIR': d + '/evidence', 'AXSIM_REPLAY_DIR': d + '/replays', 'VERIF_THREADS': threads}
        rc, o = am.sh('./target/release/axsim check %s --tier quick' % prop, cwd=d + '/sim', env=env, timeout=3600)
        v = len(re.findall(r'^VIOLATION property=%s ' % prop, o, re.M))
        cls = ''; steps = ''
        m = re.search(r'class=(\S+).*?steps (\d+->\d+)', o)
        if m: cls, steps = m.group(1), m.group(2)
        rp = ''
        m = re.search(r'^VIOLATION property=%s replay=(\S+)' % prop, o, re.M)
        if m: rp = m.group(1)
        rr = '-'
        if rp:
            rr, _ = am.sh('./target/release/axsim replay %s' % rp, cwd=d + '/sim', env=env, timeout=600)
        rows.append((b, 'exit=%d' % rc, 'violations=%d' % v, 'replay_exit=%s' % rr, cls, steps)); print(rows[-1], flush=True)
        shutil.rmtree(d + '/replays', ignore_errors=True)
    finally:
        am.sh('git checkout -- .', cwd=d + '/repo')
am.teardown_slot(0)
shutil.rmtree(am.SCRATCH, ignore_errors=True)
with open('/verif/mutants/RESULTS.tsv', 'w') as fo:
    for r in rows: fo.write('\t'.join(str(x) for x in r) + '\n')
bad = [r[0] for r in rows if not (len(r) > 3 and r[1] == 'exit=1' and r[3] == 'replay_exit=1')]
print('%d mutants, %d not caught: %s' % (len(rows), len(bad), bad))
