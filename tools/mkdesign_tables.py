#!/usr/bin/env python3
"""Regenerates the generated tables of DESIGN.md (between the GENERATED markers)."""
import json,glob,os,re
rows=[]
for f in sorted(glob.glob('/verif/seeded/*/meta.json')):
    m=json.load(open(f))
    v=m.get('verified_in_scratch_worktree')
    ver = ("suite %s; demo %s with / %s without"%(v['suite_with_change'],v['demo_with_change'].split(' ')[0],v['demo_without_change'].split(' ')[0])) if isinstance(v,dict) else str(v)
    rows.append("| %s | %s | %s | %s | %s |"%(m['id'],m['what_it_changes'].replace('|','/'),m['needs_to_manifest'].replace('|','/'),m['result_against_checks'].replace('|','/'),ver))
seeded="| id | change (written by an independent sub-agent from the property text alone) | needs | result against the checks | my verification in a scratch worktree |\n|---|---|---|---|---|\n"+"\n".join(rows)
n=len(rows); missed=sum(1 for r in rows if 'MISSED' in r or 'attributed to' in r or 'NOT DECIDED' in r); out=sum(1 for r in rows if 'NOT CAUGHT' in r); opn=sum(1 for r in rows if '| OPEN - ' in r)
seeded+="\n\n%d seeded changes: %d caught by the quick tier at the first run, %d missed, undecided or mis-attributed at first and caught after the strengthening described in their row, %d not caught because they lie outside what the checks can soundly decide (see their rows and 9.9), %d open (within reach, not yet strengthened: see its row).\n"%(n,n-missed-out-opn,missed,out,opn)
mrows=[]
for l in open('/verif/mutants/RESULTS.tsv'):
    p=l.rstrip('\n').split('\t')
    if len(p)<4: continue
    name=p[0]; cls=p[4] if len(p)>4 else ''; steps=p[5] if len(p)>5 else ''
    caught = 'exit=1' in p[1] and p[3]=='replay_exit=1'
    mrows.append("| %s | %s | %s | %s |"%(name.replace('__',' / '), "caught" if caught else "not caught (equivalent: see 9.4)", cls, steps))
mut="| mutant | quick tier | violation class | steps before -> after minimisation |\n|---|---|---|---|\n"+"\n".join(mrows)
# mechanical sweep
auto=''
ap='/verif/mutants/auto/RESULTS.tsv'
if os.path.exists(ap):
    tri={}
    tp='/verif/mutants/auto/TRIAGE.tsv'
    if os.path.exists(tp):
        for l in open(tp):
            f=l.rstrip('\n').split('\t')
            if len(f)>=2: tri[f[0]]=f[1]
    rows_a=[l.rstrip('\n').split('\t') for l in open(ap) if l.strip()]
    from collections import Counter
    c=Counter(r[1] for r in rows_a)
    killed_by=Counter(r[2] for r in rows_a if r[1]=='killed')
    auto="%d mechanical mutants: %d do not compile, %d killed by a quick check (first killing check: %s), %d stop every world that needs the mutated contract with a harness error (exit 2: the contract cannot be deployed at all), %d survive.\n\n"%(len(rows_a),c.get('uncompilable',0),c.get('killed',0),', '.join('%s %d'%(k,v) for k,v in sorted(killed_by.items())),c.get('harness',0),c.get('survived',0))
    auto+="| surviving / undecided mutant (file:line:operator) | status | triage |\n|---|---|---|\n"
    for r in rows_a:
        if r[1] in ('survived','harness','error'):
            auto+="| %s | %s | %s |\n"%(r[0].replace('|','/'),r[1],tri.get(r[0],'NOT TRIAGED'))
# cost / reach table from the committed (quick-tier) evidence
cost="| check | worlds | runs | steps | distinct judged (state, operation) pairs | fault kinds fired | probes hit | wall (16 threads) | runs/hour |\n|---|---|---|---|---|---|---|---|---|\n"
for f in sorted(glob.glob('/verif/evidence/C*.json')):
    e=json.load(open(f)); c=e['coverage']
    worlds=c.get('worlds'); wn='+'.join(w.get('world','?') for w in worlds) if isinstance(worlds,list) else str(worlds)
    ff=sum(1 for k,v in c.get('faults_fired',{}).items() if v)
    pr=sum(1 for k,v in c.get('probes',{}).items() if v); pt=len(c.get('probes',{}))
    cost+="| %s (%s) | %s | %s | %s | %s | %d | %d / %d | %.0f s | %s |\n"%(e['property_id'],e.get('tier','?'),wn,c.get('evaluations','?'),c.get('steps','?'),c.get('distinct_nontrivial','?'),ff,pr,pt,e.get('wall_s',0),c.get('runs_per_hour','?'))
s=open('/verif/DESIGN.md').read()
def put(tag,body,s):
    a='<!-- GENERATED:%s -->'%tag; b='<!-- /GENERATED:%s -->'%tag
    return re.sub(re.escape(a)+'.*?'+re.escape(b), lambda m: a+'\n'+body+'\n'+b, s, flags=re.S)
s=put('SEEDED',seeded,s); s=put('MUTANTS',mut,s)
if auto: s=put('AUTOMUTANTS',auto,s)
s=put('COST',cost,s)
open('/verif/DESIGN.md','w').write(s)
print(n,'seeded rows,',len(mrows),'mutant rows')
