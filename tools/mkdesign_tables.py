#!/usr/bin/env python3
"""Regenerates the generated tables of DESIGN.md (between the GENERATED markers)."""
import json,glob,os,re
rows=[]
for f in sorted(glob.glob('/verif/seeded/*/meta.json')):
    m=json.load(open(f))
    v=m.get('verified_in_scratch_worktree')
    ver = ("suite %s; demo %s with / %s without"%(v['suite_with_change'],v['demo_with_change'].split(' ')[0],v['demo_without_change'].split(' ')[0])) if isinstance(v,dict) else str(v)
    rows.append("| %s | %s | %s | %s | %s |"%(m['id'],m['what_it_changes'].replace('|','/'),m['needs_to_manifest'].replace('|','/'),m['result_against_checks'].replace('|','/'),ver))
seeded="| id | change (written by an independent sub-agent from the property text alone) | needs | result against the checks | my verification in a scratch worktree |\n|---|---|---|---|---|\n"+"\n".join(rows)
n=len(rows); missed=sum(1 for r in rows if 'MISSED' in r or 'attributed to' in r or 'NOT DECIDED' in r); out=sum(1 for r in rows if 'NOT CAUGHT' in r)
seeded+="\n\n%d seeded changes: %d caught by the quick tier at the first run, %d missed, undecided or mis-attributed at first and caught after the strengthening described in their row, %d not caught because it lies outside what the property quantifies over (see its row).\n"%(n,n-missed-out,missed,out)
mrows=[]
for l in open('/verif/mutants/RESULTS.tsv'):
    p=l.rstrip('\n').split('\t')
    if len(p)<4: continue
    name=p[0]; cls=p[4] if len(p)>4 else ''; steps=p[5] if len(p)>5 else ''
    caught = 'exit=1' in p[1] and p[3]=='replay_exit=1'
    mrows.append("| %s | %s | %s | %s |"%(name.replace('__',' / '), "caught" if caught else "not caught (equivalent: see 9.4)", cls, steps))
mut="| mutant | quick tier | violation class | steps before -> after minimisation |\n|---|---|---|---|\n"+"\n".join(mrows)
s=open('/verif/DESIGN.md').read()
def put(tag,body,s):
    a='<!-- GENERATED:%s -->'%tag; b='<!-- /GENERATED:%s -->'%tag
    return re.sub(re.escape(a)+'.*?'+re.escape(b), lambda m: a+'\n'+body+'\n'+b, s, flags=re.S)
s=put('SEEDED',seeded,s); s=put('MUTANTS',mut,s)
open('/verif/DESIGN.md','w').write(s)
print(n,'seeded rows,',len(mrows),'mutant rows')
