#!/bin/bash
# Cross-process determinism test: every world, N seeds, executed in separate
# processes with 1 and 16 worker threads (and twice with 16); the per-run trace
# digests must be identical.  exit 0 = deterministic.
set -u
N=${1:-2000}
cd /verif/sim || exit 2
cargo build --release --offline >/dev/null 2>&1 || { echo "build failed"; exit 2; }
BIN=./target/release/axsim
D=$(mktemp -d)
rc=0
for wp in "G C01" "G C03" "G C09" "T C12" "S C14" "O C17" "I C04" "I C05" "I C11" "C C10" "U C15"; do
  set -- $wp
  VERIF_THREADS=1  $BIN traces $1 $2 $N > $D/a.txt
  VERIF_THREADS=16 $BIN traces $1 $2 $N > $D/b.txt
  VERIF_THREADS=7  $BIN traces $1 $2 $N > $D/c.txt
  if cmp -s $D/a.txt $D/b.txt && cmp -s $D/a.txt $D/c.txt; then
    echo "world $1 focus $2: $N runs x 3 processes (1/16/7 threads): identical ($(md5sum < $D/a.txt | cut -c1-12))"
  else
    echo "world $1 focus $2: TRACES DIFFER"; diff $D/a.txt $D/b.txt | head -5; rc=1
  fi
done
rm -rf $D
exit $rc
