#!/bin/bash
# Sensitivity test: for every /verif/mutants/<PROP>__<name>.diff apply it to /repo,
# run the property's quick check, require exit 1 + VIOLATION + a replay that
# reproduces in a fresh process, and revert.  /repo is always restored.
# usage: tools/mutants.sh [pattern]   (results appended to /verif/mutants/RESULTS.tsv)
set -u
PAT=${1:-}
cd /verif || exit 2
if ! git -C /repo diff --quiet; then echo "/repo has local changes; refusing"; exit 2; fi
trap 'git -C /repo checkout -- . 2>/dev/null' EXIT
OUT=/verif/mutants/RESULTS.tsv
: > $OUT.tmp
for d in /verif/mutants/*${PAT}*.diff; do
  b=$(basename $d .diff); prop=${b%%__*}
  git -C /repo apply $d || { echo -e "$b\tAPPLY-FAILED" | tee -a $OUT.tmp; continue; }
  log=$(mktemp)
  AXSIM_EVIDENCE_DIR=/tmp/axsim_scratch_evidence ./check $prop --tier quick > $log 2>&1; rc=$?
  v=$(grep -c "^VIOLATION property=$prop " $log)
  rp=$(grep "^VIOLATION property=$prop replay=" $log | head -1 | sed 's/.*replay=//')
  cls=$(grep -A1 "^VIOLATION property=$prop " $log | grep "class=" | head -1 | sed 's/.*class=\([^ ]*\).*steps \([0-9]*->[0-9]*\).*/\1\t\2/')
  rr="-"
  if [ -n "$rp" ] && [ -f "$rp" ]; then ./replay "$rp" >/dev/null 2>&1; rr=$?; fi
  git -C /repo checkout -- .
  echo -e "$b\texit=$rc\tviolations=$v\treplay_exit=$rr\t$cls" | tee -a $OUT.tmp
  rm -f $log
done
mv $OUT.tmp $OUT
# leave the simulator built against the unmodified tree
(cd /verif/sim && cargo build --release --offline >/dev/null 2>&1)
