#!/usr/bin/env python3
"""Generates /verif/mutants/<name>.diff: deliberate property-breaking edits of /repo
(used by tools/mutants.sh to prove the checks are sensitive)."""
import subprocess, os, sys
R='/repo'
M=[
# name, property, file, old, new
("c01_threshold_strict","C01","contracts/axelar-gateway/src/auth.rs","if total_weight >= proof.threshold {","if total_weight > proof.threshold {"),
("c01_skip_sig_check_first_signer","C01","contracts/axelar-gateway/src/auth.rs","            env.crypto()\n                .ed25519_verify(&public_key, msg_hash.to_bytes().as_ref(), &signature);\n","            if total_weight > 0 {\n                env.crypto()\n                    .ed25519_verify(&public_key, msg_hash.to_bytes().as_ref(), &signature);\n            }\n"),
("c01_digest_without_signers_hash","C01","contracts/axelar-gateway/src/auth.rs","    msg.extend_from_array(&signers_hash.to_array());\n    msg.extend_from_array(&data_hash.to_array());","    let _ = signers_hash;\n    msg.extend_from_array(&data_hash.to_array());"),
("c02_reopen_executed_ids","C02","contracts/axelar-gateway/src/contract.rs","            if message_approval != MessageApprovalValue::NotApproved {","            if matches!(message_approval, MessageApprovalValue::Approved(_)) {"),
("c02_validate_ignores_source_address","C02","contracts/axelar-gateway/src/contract.rs","        let message = Message {\n            source_chain,\n            message_id,\n            source_address,\n            contract_address: caller,\n            payload_hash,\n        };\n\n        if message_approval == Self::message_approval_hash(&env, message.clone()) {","        let message = Message {\n            source_chain,\n            message_id,\n            source_address,\n            contract_address: caller,\n            payload_hash,\n        };\n\n        if matches!(message_approval, MessageApprovalValue::Approved(_)) {"),
("c03_accept_equal_adjacent_keys","C03","contracts/axelar-gateway/src/auth.rs","            previous_signer < signer.signer,","            previous_signer <= signer.signer,"),
("c03_threshold_may_exceed_total","C03","contracts/axelar-gateway/src/auth.rs","        threshold != 0 && total_weight >= threshold,","        threshold != 0 && total_weight.saturating_add(1) >= threshold,"),
("c03_duplicate_check_swallowed","C03","contracts/axelar-gateway/src/auth.rs","    ensure!(\n        epoch_by_signers_hash(env, new_signers_hash.clone()).is_err(),\n        ContractError::DuplicateSigners\n    );\n","    if epoch_by_signers_hash(env, new_signers_hash.clone()).is_ok() {\n        return Ok(());\n    }\n"),
("c04_drop_hub_chain_check","C04","contracts/interchain-token-service/src/contract.rs","        ensure!(\n            source_chain == Self::its_hub_chain_name(env),\n            ContractError::InvalidHubChain\n        );\n","        let _ = &source_chain;\n"),
("c04_drop_trusted_origin_check","C04","contracts/interchain-token-service/src/contract.rs","        ensure!(\n            Self::is_trusted_chain(env, original_source_chain.clone()),\n            ContractError::UntrustedChain\n        );\n\n        Ok((original_source_chain, inner_message))","        Ok((original_source_chain, inner_message))"),
("c04_trusted_origin_check_and_ttl_bump_dropped","C04","contracts/interchain-token-service/src/contract.rs",None,None),
("c05_drop_positive_amount_check","C05","contracts/interchain-token-service/src/contract.rs","        ensure!(amount > 0, ContractError::InvalidAmount);\n\n        caller.require_auth();","        caller.require_auth();"),
("c05_announce_amount_minus_one","C05","contracts/interchain-token-service/src/contract.rs","            source_address: caller.clone().to_xdr(env),\n            destination_address,\n            amount,","            source_address: caller.clone().to_xdr(env),\n            destination_address,\n            amount: amount - 1,"),
("c06_remove_trusted_chain_no_owner_check","C06","contracts/interchain-token-service/src/contract.rs","    fn remove_trusted_chain(env: &Env, chain: String) -> Result<(), ContractError> {\n        Self::owner(env).require_auth();\n","    fn remove_trusted_chain(env: &Env, chain: String) -> Result<(), ContractError> {\n"),
("c06_transfer_ownership_checks_new_owner","C06","packages/axelar-soroban-std/src/interfaces/ownable.rs","    let current_owner = T::owner(env);\n    current_owner.require_auth();","    let current_owner = T::owner(env);\n    new_owner.require_auth();"),
("c07_operators_execute_without_operator_auth","C07","contracts/axelar-operators/src/contract.rs","        operator.require_auth();\n\n        let key = DataKey::Operators(operator);","        let key = DataKey::Operators(operator);"),
("c07_burn_from_without_spender_auth","C07","contracts/interchain-token/src/contract.rs","    fn burn_from(env: Env, spender: Address, from: Address, amount: i128) {\n        spender.require_auth();\n","    fn burn_from(env: Env, spender: Address, from: Address, amount: i128) {\n"),
("c08_retention_off_by_one","C08","contracts/axelar-gateway/src/auth.rs","        current_epoch - signers_epoch <= previous_signers_retention,","        current_epoch - signers_epoch < previous_signers_retention.saturating_add(2),"),
("c08_bypass_skips_nothing_but_latest_for_all","C08","contracts/axelar-gateway/src/contract.rs","            bypass_rotation_delay || is_latest_signers,","            true || bypass_rotation_delay || is_latest_signers,"),
("c09_disable_delay_check","C09","contracts/axelar-gateway/src/auth.rs","    if enforce_rotation_delay {\n        ensure!(","    if enforce_rotation_delay && false {\n        ensure!("),
("c09_delay_strict","C09","contracts/axelar-gateway/src/auth.rs","            current_timestamp - last_rotation_timestamp >= minimum_rotation_delay,","            current_timestamp - last_rotation_timestamp > minimum_rotation_delay,"),
("c09_bypass_does_not_restart_clock","C09","contracts/axelar-gateway/src/auth.rs","    env.storage()\n        .instance()\n        .set(&DataKey::LastRotationTimestamp, &current_timestamp);","    if enforce_rotation_delay {\n        env.storage()\n            .instance()\n            .set(&DataKey::LastRotationTimestamp, &current_timestamp);\n    }"),
("c10_non_strict_decoding","C10","contracts/interchain-token-service/src/abi.rs","InterchainTransfer::abi_decode_params(&payload, true)","InterchainTransfer::abi_decode_params(&payload, false)"),
("c10_to_i128_ignores_upper_bits","C10","contracts/interchain-token-service/src/abi.rs","    ensure!(\n        i128::from_le_bytes(bytes_to_remove) == 0,\n        ContractError::InvalidAmount\n    );\n","    let _ = bytes_to_remove;\n"),
("c11_register_canonical_overwrites","C11","contracts/interchain-token-service/src/contract.rs","        ensure!(\n            !env.storage()\n                .persistent()\n                .has(&DataKey::TokenIdConfigKey(token_id.clone())),\n            ContractError::TokenAlreadyRegistered\n        );\n",""),
("c11_token_id_ignores_deployer","C11","contracts/interchain-token-service/src/contract.rs","                    PREFIX_INTERCHAIN_TOKEN_SALT,\n                    chain_name_hash,\n                    deployer,\n                    salt,","                    PREFIX_INTERCHAIN_TOKEN_SALT,\n                    chain_name_hash,\n                    Address::zero(env),\n                    {\n                        let _ = deployer;\n                        salt\n                    },"),
("c12_allowance_expires_one_ledger_early","C12","contracts/interchain-token/src/contract.rs","                    if allowance.expiration_ledger < env.ledger().sequence() {","                    if allowance.expiration_ledger <= env.ledger().sequence() {"),
("c12_accept_expired_approval","C12","contracts/interchain-token/src/contract.rs","            !(amount > 0 && expiration_ledger < env.ledger().sequence()),","            !(amount > 0 && expiration_ledger.saturating_add(1) < env.ledger().sequence()),"),
("c12_accept_expired_approval_no_ttl_trap","C12","contracts/interchain-token/src/contract.rs",None,None),
("c12_owner_mints_without_minter_status","C12","contracts/interchain-token/src/contract.rs","        if let Err(err) = Self::mint_from(&env, Self::owner(&env), to, amount) {\n            panic_with_error!(env, err);\n        }","        Self::owner(&env).require_auth();\n        Self::validate_amount(&env, amount);\n        Self::receive_balance(&env, to.clone(), amount);\n        TokenUtils::new(&env).events().mint(Self::owner(&env), to, amount);"),
("c13_hash_of_truncated_payload","C13","contracts/axelar-gateway/src/contract.rs","        let payload_hash = env.crypto().keccak256(&payload).into();","        let payload_hash = env\n            .crypto()\n            .keccak256(&payload.slice(0..payload.len().min(4096)))\n            .into();"),
("c14_gas_added_names_wrong_amount","C14","contracts/axelar-gas-service/src/contract.rs","        event::gas_added(&env, sender, message_id, spender, token);","        event::gas_added(\n            &env,\n            sender,\n            message_id,\n            spender,\n            Token {\n                address: token.address,\n                amount: token.amount - 1,\n            },\n        );"),
("c14_refund_without_collector_auth_for_small","C14","contracts/axelar-gas-service/src/contract.rs","        Self::gas_collector(&env).require_auth();\n\n        token::Client::new(&env, &token.address).transfer(","        if token.amount > 1 {\n            Self::gas_collector(&env).require_auth();\n        }\n\n        token::Client::new(&env, &token.address).transfer("),
("c15_upgrader_no_same_version_check","C15","contracts/upgrader/src/contract.rs","        ensure!(\n            contract_client.version() != new_version,\n            ContractError::SameVersion\n        );\n",""),
("c15_upgrader_no_final_version_check","C15","contracts/upgrader/src/contract.rs","        ensure!(\n            contract_client.version() == new_version,\n            ContractError::UnexpectedNewVersion\n        );\n",""),
("c15_migrate_does_not_close_window","C15","packages/axelar-soroban-std/src/interfaces/upgradable.rs","    custom_migration();\n    complete_migration(env);","    custom_migration();"),
("c16_example_ignores_validation","C16","contracts/example/src/contract.rs","        Self::validate_message(&env, &source_chain, &message_id, &source_address, &payload)\n            .unwrap_or_else(|err| panic_with_error!(env, err));","        let _ = Self::validate_message(&env, &source_chain, &message_id, &source_address, &payload);"),
("c16_interface_validates_constant_source_address","C16","contracts/axelar-gateway/src/executable.rs","                source_chain,\n                message_id,\n                source_address,\n                &env.crypto().keccak256(payload).into(),","                source_chain,\n                message_id,\n                &{\n                    let _ = source_address;\n                    String::from_str(env, \"0x4EFE356BEDeCC817cb89B4E9b796dB8bC188DC59\")\n                },\n                &env.crypto().keccak256(payload).into(),"),
("c17_execute_returns_unit","C17","contracts/axelar-operators/src/contract.rs","        Ok(res)","        let _ = res;\n        Ok(().into())"),
("c17_remove_operator_absent_ok","C17","contracts/axelar-operators/src/contract.rs","        ensure!(\n            env.storage().instance().has(&key),\n            ContractError::NotAnOperator\n        );\n\n        env.storage().instance().remove(&key);","        env.storage().instance().remove(&key);"),
("c18_skip_metadata_validation","C18","contracts/interchain-token-service/src/contract.rs","        ensure!(\n            validate_token_metadata(&token_metadata).is_ok(),\n            ContractError::InvalidTokenMetaData\n        );\n\n        let message = Message::DeployInterchainToken(DeployInterchainToken {","        let message = Message::DeployInterchainToken(DeployInterchainToken {"),
("c18_announce_caller_as_minter","C18","contracts/interchain-token-service/src/contract.rs","            decimals: token_metadata.decimal as u8,\n            minter: None,\n        });","            decimals: token_metadata.decimal as u8,\n            minter: Some(caller.clone().to_xdr(env)),\n        });"),
]
os.makedirs('/verif/mutants',exist_ok=True)
subprocess.run(['git','-C',R,'diff','--quiet'],check=True)
bad=0
MULTI={
 "c04_trusted_origin_check_and_ttl_bump_dropped":[
   ("        ensure!(\n            Self::is_trusted_chain(env, original_source_chain.clone()),\n            ContractError::UntrustedChain\n        );\n\n        Ok((original_source_chain, inner_message))","        Ok((original_source_chain, inner_message))"),
   ("        extend_persistent_ttl(env, &DataKey::TrustedChain(source_chain));\n        extend_instance_ttl(env);\n\n        Ok(())\n    }\n\n    fn get_execute_params(","        if Self::is_trusted_chain(env, source_chain.clone()) {\n            extend_persistent_ttl(env, &DataKey::TrustedChain(source_chain));\n        }\n        extend_instance_ttl(env);\n\n        Ok(())\n    }\n\n    fn get_execute_params(")],
 "c12_accept_expired_approval_no_ttl_trap":[
   ("            !(amount > 0 && expiration_ledger < env.ledger().sequence()),","            !(amount > 0 && expiration_ledger.saturating_add(1) < env.ledger().sequence()),"),
   ("            let live_for = expiration_ledger\n                .checked_sub(env.ledger().sequence())\n                .unwrap();","            let live_for = expiration_ledger.saturating_sub(env.ledger().sequence());")],
}
for name,prop,f,old,new in M:
    p=os.path.join(R,f); s=open(p).read()
    if old is None:
        okk=True
        for (o,n) in MULTI[name]:
            if s.count(o)!=1: okk=False; print("SKIP multi anchor",name,s.count(o))
            s=s.replace(o,n)
        if not okk: bad+=1; continue
        open(p,'w').write(s)
        d=subprocess.run(['git','-C',R,'diff'],capture_output=True,text=True).stdout
        open('/verif/mutants/%s__%s.diff'%(prop,name),'w').write(d)
        subprocess.run(['git','-C',R,'checkout','--','.'],check=True)
        continue
    if s.count(old)!=1:
        print("SKIP (anchor count %d): %s"%(s.count(old),name)); bad+=1; continue
    open(p,'w').write(s.replace(old,new))
    d=subprocess.run(['git','-C',R,'diff'],capture_output=True,text=True).stdout
    open('/verif/mutants/%s__%s.diff'%(prop,name),'w').write(d)
    subprocess.run(['git','-C',R,'checkout','--','.'],check=True)
print("wrote",len(M)-bad,"mutants")
