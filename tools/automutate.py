#!/usr/bin/env python3
"""tools/automutate.py  — systematic (mechanical) mutation sweep, complementing the hand-written
mutants (mutants/*.diff) and the independently seeded changes (seeded/).

  tools/automutate.py list   [--only <substr>]            print the mutant list
  tools/automutate.py run    [--workers K] [--threads T] [--only <substr>] [--limit N] [--resume]
  tools/automutate.py suite  [--workers K]                run the repo's own test suite on the survivors

Every mutant is one small edit of a non-test source line under contracts/*/src or packages/*/src:
a relational / logical / arithmetic operator replaced, a boolean constant flipped, an `ensure!`,
a `require_auth()` or a standalone call statement removed.  Each is applied in a scratch worktree
of /repo (never in /repo), the simulator (a scratch copy of /verif/sim pointed at that worktree) is
rebuilt and the quick checks of the properties that bear on the mutated contract are run with
AXSIM_FAST_FAIL until one reports a violation.  Evidence and replays of these runs go to a scratch
directory.  Results: /verif/mutants/auto/RESULTS.tsv (one row per mutant), survivors are triaged by
hand in /verif/mutants/auto/TRIAGE.md.
"""
import os, re, sys, subprocess, json, glob, hashlib, shutil, threading, queue, time

REPO = '/repo'
OUT = '/verif/mutants/auto'
SCRATCH = '/tmp/am'

CHECKS = [
    ('contracts/axelar-gateway/', ['C01', 'C03', 'C02', 'C08', 'C09', 'C13', 'C16', 'C06', 'C07', 'C15']),
    ('contracts/interchain-token-service/', ['C04', 'C05', 'C11', 'C18', 'C10', 'C06', 'C07', 'C15']),
    ('contracts/interchain-token/', ['C12', 'C06', 'C07', 'C15']),
    ('contracts/axelar-gas-service/', ['C14', 'C06', 'C07', 'C15']),
    ('contracts/axelar-operators/', ['C17', 'C06', 'C07', 'C15']),
    ('contracts/upgrader/', ['C15']),
    ('contracts/example/', ['C16', 'C13', 'C07']),
    ('packages/', ['C15', 'C06', 'C12', 'C02', 'C14', 'C17', 'C04', 'C05', 'C09', 'C11', 'C18', 'C03', 'C16']),
]


def checks_for(path):
    for pre, cs in CHECKS:
        if path.startswith(pre):
            return cs
    return []


def source_files():
    fs = []
    for pat in ['contracts/*/src/**/*.rs', 'packages/*/src/**/*.rs']:
        fs += glob.glob(os.path.join(REPO, pat), recursive=True)
    out = []
    for f in sorted(set(fs)):
        rel = os.path.relpath(f, REPO)
        b = os.path.basename(f)
        if 'test' in b or '/tests/' in rel or 'testdata' in rel:
            continue
        out.append(rel)
    return out


REL = [
    (r' == ', ' != '), (r' != ', ' == '),
    (r' < ', ' <= '), (r' <= ', ' < '), (r' > ', ' >= '), (r' >= ', ' > '),
    (r' && ', ' || '), (r' \|\| ', ' && '),
    (r' \+ 1\b', ' + 0'), (r' - 1\b', ' - 0'),
    (r' \+ ', ' - '), (r' - ', ' + '),
    (r'\btrue\b', 'false'), (r'\bfalse\b', 'true'),
    (r'\bif !', 'if '),
    (r'\.checked_add\(', '.wrapping_add('), (r'\.checked_sub\(', '.wrapping_sub('),
    (r'\.saturating_sub\(', '.wrapping_sub('),
]


def code_lines(text):
    """yield (index, line) for lines that are production code (outside #[cfg(test)] items, comments, attributes)."""
    lines = text.split('\n')
    skip_depth = None
    depth = 0
    pending_test_attr = False
    res = []
    for i, l in enumerate(lines):
        st = l.strip()
        if skip_depth is None and re.match(r'#\[cfg\((test|any\(test)', st):
            pending_test_attr = True
        opens = l.count('{'); closes = l.count('}')
        if pending_test_attr and skip_depth is None and (opens > 0 or st.endswith(';')) and not st.startswith('#['):
            if opens > closes:
                skip_depth = depth
            pending_test_attr = False
            depth += opens - closes
            continue
        depth += opens - closes
        if skip_depth is not None:
            if depth <= skip_depth:
                skip_depth = None
            continue
        if pending_test_attr:
            continue
        if not st or st.startswith('//') or st.startswith('#[') or st.startswith('use ') or st.startswith('pub use ') or st.startswith('mod ') or st.startswith('pub mod '):
            continue
        res.append(i)
    return lines, res


def gen_mutants():
    muts = []
    for rel in source_files():
        text = open(os.path.join(REPO, rel)).read()
        lines, idxs = code_lines(text)
        iset = set(idxs)
        for i in idxs:
            l = lines[i]
            code = l.split('//')[0]
            st = code.strip()
            # operator replacements (first occurrence of each pattern per line)
            for pat, rep in REL:
                for k, m in enumerate(re.finditer(pat, code)):
                    if k > 1:
                        break
                    # do not touch generics / arrows / string literals crudely
                    if '"' in code[:m.start()] and code[:m.start()].count('"') % 2 == 1:
                        continue
                    if pat in (r' < ', r' > ') and ('->' in code or 'fn ' in code or 'impl' in code or '::<' in code):
                        continue
                    new = code[:m.start()] + rep + code[m.end():]
                    muts.append((rel, i, i, 'op:%s->%s#%d' % (pat.strip().replace('\\', ''), rep.strip(), k), [new + l[len(code):]]))
            # removals
            if re.match(r'^ensure!\(.*\);$', st):
                muts.append((rel, i, i, 'del:ensure', []))
            elif st.startswith('ensure!(') and not st.endswith(';'):
                j = i
                while j < len(lines) and not lines[j].strip().endswith(');'):
                    j += 1
                if j < len(lines) and j - i <= 8:
                    muts.append((rel, i, j, 'del:ensure', []))
            elif re.search(r'\.require_auth\(\);$', st) and not st.startswith('let '):
                muts.append((rel, i, i, 'del:require_auth', []))
            elif re.match(r'^[A-Za-z_][A-Za-z0-9_:]*(\.[a-z_]+)?\(.*\)(\?)?;$', st) and not st.startswith(('let ', 'return', 'ensure!', 'panic', 'assert')):
                muts.append((rel, i, i, 'del:stmt', []))
            elif re.match(r'^\.[a-z_]+\(.*\);$', st) and False:
                pass
    # de-duplicate and give stable ids
    seen = set(); out = []
    for rel, a, b, op, new in muts:
        key = (rel, a, op)
        if key in seen:
            continue
        seen.add(key)
        mid = '%s:%d:%s' % (rel, a + 1, op)
        out.append({'id': mid, 'file': rel, 'from': a, 'to': b, 'op': op, 'new': new})
    return out


def sh(cmd, cwd=None, env=None, timeout=None):
    e = dict(os.environ); e['CARGO_NET_OFFLINE'] = 'true'
    if env: e.update(env)
    try:
        p = subprocess.run(cmd, shell=True, cwd=cwd, env=e, stdout=subprocess.PIPE, stderr=subprocess.STDOUT, timeout=timeout)
        return p.returncode, p.stdout.decode('utf8', 'replace')
    except subprocess.TimeoutExpired as ex:
        return 124, (ex.stdout or b'').decode('utf8', 'replace')


def setup_slot(k):
    d = '%s/%d' % (SCRATCH, k)
    if os.path.exists(d + '/repo'):
        sh('git -C /repo worktree remove --force %s/repo' % d)
    shutil.rmtree(d, ignore_errors=True)
    os.makedirs(d)
    rc, o = sh('git -C /repo worktree add -q --detach %s/repo HEAD' % d)
    assert rc == 0, o
    sh('mkdir -p %s/sim && cp -r /verif/sim/src /verif/sim/Cargo.toml /verif/sim/Cargo.lock /verif/sim/build.rs /verif/sim/.cargo %s/sim/' % (d, d))
    sh('cp -r /verif/sim/target %s/sim/target' % d)
    sh('grep -rl "/repo" sim/Cargo.toml sim/src | xargs sed -i "s#/repo#%s/repo#g"' % d, cwd=d)
    rc, o = sh('cargo build --release --offline', cwd=d + '/sim')
    assert rc == 0, o[-3000:]
    return d


def teardown_slot(k):
    d = '%s/%d' % (SCRATCH, k)
    sh('git -C /repo worktree remove --force %s/repo' % d)
    shutil.rmtree(d, ignore_errors=True)


def apply_mut(d, m):
    p = os.path.join(d, 'repo', m['file'])
    orig = open(p).read()
    lines = orig.split('\n')
    lines[m['from']:m['to'] + 1] = m['new']
    open(p, 'w').write('\n'.join(lines))
    return p, orig


def run_one(d, m, threads):
    p, orig = apply_mut(d, m)
    try:
        rc, o = sh('cargo build --release --offline', cwd=d + '/sim', timeout=900)
        if rc != 0:
            return ('uncompilable', '', '')
        env = {'AXSIM_FAST_FAIL': '1', 'AXSIM_EVIDENCE_DIR': d + '/evidence', 'AXSIM_REPLAY_DIR': d + '/replays', 'VERIF_THREADS': str(threads)}
        harness = ''
        for c in checks_for(m['file']):
            rc, o = sh('./target/release/axsim check %s --tier quick' % c, cwd=d + '/sim', env=env, timeout=1800)
            if rc == 1:
                cls = ''
                mm = re.search(r'class=(\S+)', o)
                if mm: cls = mm.group(1)
                return ('killed', c, cls)
            if rc != 0:
                hm = re.search(r'harness error[^\n]*', o)
                harness = '%s:%s' % (c, (hm.group(0) if hm else 'exit %d' % rc)[:160])
        shutil.rmtree(d + '/replays', ignore_errors=True)
        if harness:
            return ('harness', harness, '')
        return ('survived', '', '')
    finally:
        open(p, 'w').write(orig)


def main():
    args = sys.argv[1:]
    if not args:
        print(__doc__); return
    cmd = args[0]
    def opt(name, default=None):
        if name in args:
            return args[args.index(name) + 1]
        return default
    only = opt('--only')
    muts = gen_mutants()
    if only:
        muts = [m for m in muts if only in m['id']]
    if cmd == 'list':
        for m in muts: print(m['id'])
        print(len(muts), 'mutants', file=sys.stderr)
        return
    os.makedirs(OUT, exist_ok=True)
    res_path = OUT + '/RESULTS.tsv'
    if cmd == 'run':
        workers = int(opt('--workers', '4')); threads = int(opt('--threads', '4'))
        limit = opt('--limit')
        done = {}
        if ('--resume' in args or '--redo-survivors' in args) and os.path.exists(res_path):
            for l in open(res_path):
                f = l.rstrip('\n').split('\t')
                if len(f) >= 2: done[f[0]] = f
        if '--redo-survivors' in args:
            # re-run only the mutants that survived (or ended in a harness error) last time, e.g. after the
            # checks were strengthened; their rows are replaced
            redo = {k for k, f in done.items() if f[1] in ('survived', 'harness', 'error')}
            muts = [m for m in muts if m['id'] in redo]
            keep = [f for k, f in done.items() if k not in redo]
            done = {f[0]: f for f in keep}
            with open(res_path, 'w') as fo:
                for f in keep:
                    fo.write('\t'.join(f) + '\n')
        if limit:
            # spread the sample over the list deterministically
            n = int(limit); step = max(1, len(muts) // n)
            muts = muts[::step][:n]
        todo = [m for m in muts if m['id'] not in done]
        print('%d mutants, %d to run, %d workers x %d threads' % (len(muts), len(todo), workers, threads), flush=True)
        q = queue.Queue()
        for m in todo: q.put(m)
        lock = threading.Lock()
        fout = open(res_path, 'a' if ('--resume' in args or '--redo-survivors' in args) else 'w')
        def work(k):
            d = setup_slot(k)
            while True:
                try: m = q.get_nowait()
                except queue.Empty: break
                t0 = time.time()
                try:
                    r = run_one(d, m, threads)
                except Exception as e:
                    r = ('error', repr(e)[:200], '')
                with lock:
                    fout.write('\t'.join([m['id'], r[0], r[1], r[2], '%.0fs' % (time.time() - t0)]) + '\n'); fout.flush()
                    print(m['id'], r[0], r[1], r[2], '%.0fs' % (time.time() - t0), flush=True)
            teardown_slot(k)
        ts = [threading.Thread(target=work, args=(k,)) for k in range(workers)]
        for t in ts: t.start()
        for t in ts: t.join()
        fout.close()
        sh('rm -rf ' + SCRATCH)
    elif cmd == 'suite':
        # run the repository's own tests on each survivor (does the existing suite notice it?)
        surv = []
        for l in open(res_path):
            f = l.rstrip('\n').split('\t')
            if f[1] == 'survived': surv.append(f[0])
        byid = {m['id']: m for m in gen_mutants()}
        d = SCRATCH + '/suite'
        shutil.rmtree(d, ignore_errors=True); os.makedirs(d)
        rc, o = sh('git -C /repo worktree add -q --detach %s/repo HEAD' % d); assert rc == 0, o
        out = open(OUT + '/SURVIVORS_SUITE.tsv', 'w')
        for sid in surv:
            m = byid.get(sid)
            if not m: continue
            p, orig = apply_mut(d, m)
            rc, o = sh('CARGO_TARGET_DIR=%s/target cargo test --workspace --no-fail-fast --offline 2>&1 | grep -E "^test result|error(\\[|:)" ' % d, cwd=d + '/repo', timeout=3600)
            failed = sum(int(x) for x in re.findall(r'(\d+) failed', o)); passed = sum(int(x) for x in re.findall(r'(\d+) passed', o))
            verdict = 'suite-does-not-build' if 'error' in o and passed == 0 else ('suite-catches' if failed else 'suite-passes')
            open(p, 'w').write(orig)
            out.write('%s\t%s\t%d passed %d failed\n' % (sid, verdict, passed, failed)); out.flush()
            print(sid, verdict, passed, failed, flush=True)
        sh('git -C /repo worktree remove --force %s/repo' % d)
        shutil.rmtree(d, ignore_errors=True)


if __name__ == '__main__':
    main()
