#!/usr/bin/env python3
"""tools/seeds_scratch.py [--threads T] [--scratch DIR] [pattern]
Regression of every seeded change (/verif/seeded/<id>/patch.diff) WITHOUT touching /repo: a scratch
worktree of /repo and a scratch copy of the simulator pointed at it (same set-up as automutate.py).
For each seed: apply, rebuild, quick check of its property (stop at the first violation), replay the
replay file in a fresh process, revert.  Writes /verif/seeded/RESULTS.tsv (id, property, exit, class,
replay exit); out-of-scope seeds (meta status) are expected to pass."""
import os, sys, json, glob, re, subprocess, shutil
sys.path.insert(0, os.path.dirname(__file__))
import automutate as am
args = sys.argv[1:]
threads = '16'
if '--threads' in args:
    i = args.index('--threads'); threads = args[i + 1]; del args[i:i + 2]
scratch = '/tmp/sr'
if '--scratch' in args:
    i = args.index('--scratch'); scratch = args[i + 1]; del args[i:i + 2]
pat = [a for a in args if not a.startswith('--')]
am.SCRATCH = scratch   # several instances may run side by side, each with its own scratch directory
os.makedirs(am.SCRATCH, exist_ok=True)
d = am.setup_slot(0)
rows = []
for sd in sorted(glob.glob('/verif/seeded/C*/')):
    sid = os.path.basename(sd.rstrip('/'))
    if pat and not any(p in sid for p in pat): continue
    if not os.path.exists(sd + 'patch.diff'): continue
    prop = sid.split('-')[0]
    status = ''
    try: status = json.load(open(sd + 'meta.json')).get('status', '')
    except Exception: pass
    rc, o = am.sh('git apply %spatch.diff' % sd, cwd=d + '/repo')
    if rc != 0:
        rows.append((sid, prop, 'APPLY-FAILED', '', '')); print(rows[-1], flush=True); continue
    try:
        rc, o = am.sh('cargo build --release --offline', cwd=d + '/sim', timeout=1200)
        if rc != 0:
            rows.append((sid, prop, 'BUILD-FAILED', '', '')); print(rows[-1], flush=True); continue
        env = {'AXSIM_FAST_FAIL': '1', 'AXSIM_EVIDENCE_DIR': d + '/evidence', 'AXSIM_REPLAY_DIR': d + '/replays', 'VERIF_THREADS': threads}
        rc, o = am.sh('./target/release/axsim check %s --tier quick' % prop, cwd=d + '/sim', env=env, timeout=3600)
        cls = ''; rp = ''
        m = re.search(r'class=(\S+)', o)
        if m: cls = m.group(1)
        m = re.search(r'^VIOLATION property=%s replay=(\S+)' % prop, o, re.M)
        if m: rp = m.group(1)
        rr = '-'
        if rp:
            rr, _ = am.sh('./target/release/axsim replay %s' % rp, cwd=d + '/sim', env=env, timeout=600)
        rows.append((sid, prop, 'exit=%d' % rc, cls, 'replay_exit=%s' % rr, status)); print(rows[-1], flush=True)
        shutil.rmtree(d + '/replays', ignore_errors=True)
    finally:
        am.sh('git checkout -- .', cwd=d + '/repo')
am.teardown_slot(0)
shutil.rmtree(am.SCRATCH, ignore_errors=True)
if not pat:
    with open('/verif/seeded/RESULTS.tsv', 'w') as f:
        for r in rows: f.write('\t'.join(str(x) for x in r) + '\n')
else:
    # a partial re-run replaces the rows of the seeds it covered
    import fcntl
    lock = open('/verif/seeded/.results.lock', 'w'); fcntl.flock(lock, fcntl.LOCK_EX)
    old = {}
    try:
        for l in open('/verif/seeded/RESULTS.tsv'):
            f_ = l.rstrip('\n').split('\t')
            if f_ and f_[0]: old[f_[0]] = f_
    except FileNotFoundError:
        pass
    for r in rows: old[r[0]] = [str(x) for x in r]
    with open('/verif/seeded/RESULTS.tsv', 'w') as f:
        for k in sorted(old): f.write('\t'.join(old[k]) + '\n')
bad = [r for r in rows if not (r[2] == 'exit=1' and r[4] == 'replay_exit=1') and (len(r) < 6 or r[5] != 'out-of-scope')]
print('%d seeds, %d not caught: %s' % (len(rows), len(bad), [r[0] for r in bad]))
