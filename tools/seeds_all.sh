#!/bin/bash
# Runs tools/seed_check.sh for every seeded change and writes /verif/seeded/RESULTS.tsv
cd /verif || exit 2
: > seeded/RESULTS.tsv.tmp
for d in seeded/C*/; do id=$(basename $d); [ -f $d/patch.diff ] || continue; tools/seed_check.sh $id ${id%%-*} | tee -a seeded/RESULTS.tsv.tmp; done
mv seeded/RESULTS.tsv.tmp seeded/RESULTS.tsv
(cd /verif/sim && cargo build --release --offline >/dev/null 2>&1)
grep -vc "exit=1 .*replay_exit=1" seeded/RESULTS.tsv
