#!/bin/bash
# tools/verify_seed.sh <ID> <demo destination relative to repo root> <test name>
# Confirms in a scratch worktree (outside /repo and /verif) that a seeded change
# compiles, passes the unedited suite, and that its demonstration fails with the
# change and passes without it.  Prints one summary line; removes the worktree.
set -u
ID=$1; DEST=$2; TNAME=$3
S=/verif/seeded/$ID
W=/tmp/vseed_$ID
export CARGO_TARGET_DIR=/tmp/vseed_target
git -C /repo worktree remove --force $W >/dev/null 2>&1
git -C /repo worktree add -q --detach $W HEAD || exit 2
cd $W || exit 2
git apply $S/patch.diff || { echo "$ID patch does not apply"; exit 2; }
suite=$(cargo test --workspace --no-fail-fast --offline 2>&1 | grep -a -E "^test result" | awk '{p+=$4; f+=$6} END {print p" passed "f" failed"}')
cp $S/demo.rs $DEST
with=$(cargo test --workspace --offline --test $TNAME 2>&1 | grep -a -E "^test result" | tail -1)
git apply -R $S/patch.diff
without=$(cargo test --workspace --offline --test $TNAME 2>&1 | grep -a -E "^test result" | tail -1)
cd /; git -C /repo worktree remove --force $W
echo "$ID | suite with change: $suite | demo with change: $with | demo without: $without"
