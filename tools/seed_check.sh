#!/bin/bash
# tools/seed_check.sh <ID> [property to check, default ID]: applies /verif/seeded/<ID>/patch.diff to /repo,
# runs the property's quick check, prints the outcome, replays the first replay file, reverts /repo.
set -u
ID=$1; PROP=${2:-${ID%%-*}}
cd /verif || exit 2
git -C /repo diff --quiet || { echo "/repo dirty"; exit 2; }
trap 'git -C /repo checkout -- . 2>/dev/null' EXIT
git -C /repo apply /verif/seeded/$ID/patch.diff || exit 2
log=$(mktemp)
AXSIM_EVIDENCE_DIR=/tmp/axsim_scratch_evidence ./check $PROP --tier quick > $log 2>&1; rc=$?
rp=$(grep "^VIOLATION property=$PROP replay=" $log | head -1 | sed 's/.*replay=//')
cls=$(grep -A1 "^VIOLATION property=$PROP " $log | grep "class=" | head -1 | sed 's/.*class=\([^ ]*\).*steps \([0-9]*->[0-9]*\).*/\1 steps \2/')
rr="-"; [ -n "$rp" ] && { ./replay "$rp" >/dev/null 2>&1; rr=$?; }
echo "$ID check=$PROP exit=$rc class=[$cls] replay_exit=$rr"
rm -f $log
