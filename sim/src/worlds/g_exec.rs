//! World G executor: the real gateway / example / gas service under the
//! simulator, judged step by step against the reference model.

use super::g_types::*;
use crate::common::{AuthVar, ClockMove, PayloadSpec, StrSpec};
use crate::engine::{Ctx, Verdict};
use crate::harness::mini_app::MiniApp;
use crate::host::{addr_bytes, AbortStatus, AuthEntry, AuthNode, CallResult, Ev, Outcome, Sim};
use crate::oracle::*;
use crate::rng::{hash_of, Rng};
use axelar_gas_service::AxelarGasService;
use axelar_gateway::types::{
    Message, Proof, ProofSignature, ProofSigner, WeightedSigner, WeightedSigners,
};
use axelar_gateway::AxelarGateway;
use axelar_soroban_std::types::Token;
use example::Example;
use soroban_sdk::testutils::Address as _;
use soroban_sdk::xdr::ScVal;
use soroban_sdk::{vec as svec_, Address, Bytes, BytesN, Env, IntoVal, String as SStr, Symbol, Val, Vec as SVec};
use std::collections::BTreeMap;
use std::panic::{catch_unwind, AssertUnwindSafe};

pub const N_KEYS: usize = 40;
pub const P_STRANGER: usize = 8;
pub const N_PRINCIPALS: usize = 9;

#[derive(Clone, Debug, PartialEq, Eq, Hash)]
pub enum MsgStatus {
    Approved(MMsg),
    Executed,
}

#[derive(Clone, Debug, Hash)]
pub struct GwModel {
    pub domain: [u8; 32],
    pub retention: u64,
    pub min_delay: u64,
    pub epoch: u64,
    pub last_rotation: u64,
    pub by_epoch: BTreeMap<u64, [u8; 32]>,
    pub by_hash: BTreeMap<[u8; 32], u64>,
    pub owner: usize,
    pub former_owner: Option<usize>,
    pub operator: usize,
    pub former_operator: Option<usize>,
    pub status: BTreeMap<(String, String), MsgStatus>,
}

pub struct GwRt {
    pub addr: Address,
    pub example: Address,
    pub mini: Address,
    pub bad_example: Address,
    pub bad_mini: Address,
    pub m: GwModel,
    /// what status queries have shown per id, for the monotonicity check
    pub seen: BTreeMap<(String, String), u8>,
    pub approved_events: BTreeMap<(String, String), u32>,
    pub executed_events: BTreeMap<(String, String), u32>,
    /// what was delivered to which app, for the redelivery probe
    pub delivered: BTreeMap<(String, String), (MMsg, Vec<u8>, Address)>,
}

pub struct BuiltProof {
    pub declared: MSet,
    pub sigs: Vec<Option<[u8; 64]>>,
}

pub struct GExec<'a> {
    pub sim: Sim,
    pub cfg: &'a GCfg,
    pub keys: KeyPool,
    pub principals: Vec<Address>,
    pub gws: Vec<GwRt>,
    pub gas: Address,
    pub token: Address,
    pub history: Vec<GOp>,
    pub known_sets: BTreeMap<[u8; 32], MSet>,
    pub sweep_ctr: u32,
    pub payload_by_hash: BTreeMap<[u8; 32], Vec<u8>>,
    pub user_gas_balance: BTreeMap<usize, i128>,
    pub gas_held: i128,
    pub in_tail: bool,
}

const GALL: &[&str] = &["C01", "C02", "C03", "C08", "C09", "C13", "C16", "C06", "C07"];

pub fn mset_to_val(env: &Env, s: &MSet) -> WeightedSigners {
    let mut signers = SVec::new(env);
    for x in &s.signers {
        signers.push_back(WeightedSigner {
            signer: BytesN::from_array(env, &x.key),
            weight: x.weight,
        });
    }
    WeightedSigners {
        signers,
        threshold: s.threshold,
        nonce: BytesN::from_array(env, &s.nonce),
    }
}

pub fn proof_to_val(env: &Env, p: &BuiltProof) -> Proof {
    let mut signers = SVec::new(env);
    for (x, sig) in p.declared.signers.iter().zip(p.sigs.iter()) {
        signers.push_back(ProofSigner {
            signer: WeightedSigner {
                signer: BytesN::from_array(env, &x.key),
                weight: x.weight,
            },
            signature: match sig {
                Some(s) => ProofSignature::Signed(BytesN::from_array(env, s)),
                None => ProofSignature::Unsigned,
            },
        });
    }
    Proof {
        signers,
        threshold: p.declared.threshold,
        nonce: BytesN::from_array(env, &p.declared.nonce),
    }
}

impl<'a> GExec<'a> {
    pub fn env(&self) -> &Env {
        &self.sim.env
    }

    pub fn new(cfg: &'a GCfg, ctx: &mut Ctx) -> Option<GExec<'a>> {
        let mut sim = Sim::new(cfg.start_ts, 100);
        let env = sim.env.clone();
        let keys = KeyPool::new(N_KEYS);
        let principals: Vec<Address> = (0..N_PRINCIPALS).map(|_| Address::generate(&env)).collect();
        let mut known_sets = BTreeMap::new();
        for s in &cfg.pool {
            known_sets.insert(s.hash(), s.clone());
        }
        // gas service + asset for the example's outbound path
        sim.setup_all_auths();
        let gas = env.register(AxelarGasService, (&principals[0], &principals[P_STRANGER]));
        let sac = env.register_stellar_asset_contract_v2(Address::generate(&env));
        let token = sac.address();
        let mut user_gas_balance = BTreeMap::new();
        for u in 4..8usize {
            soroban_sdk::token::StellarAssetClient::new(&env, &token).mint(&principals[u], &1000i128);
            user_gas_balance.insert(u, 1000i128);
        }
        let mut gws = vec![];
        for (gi, g) in cfg.gateways.iter().enumerate() {
            let owner = gi * 2;
            let operator = if g.operator_is_owner { owner } else { gi * 2 + 1 };
            let mut init = SVec::new(&env);
            for i in &g.initial {
                init.push_back(mset_to_val(&env, &cfg.pool[*i % cfg.pool.len()]));
            }
            let addr = Address::generate(&env);
            let r = catch_unwind(AssertUnwindSafe(|| {
                env.register_at(
                    &addr,
                    AxelarGateway,
                    (
                        &principals[owner],
                        &principals[operator],
                        BytesN::from_array(&env, &g.domain),
                        g.min_delay,
                        g.retention,
                        init,
                    ),
                )
            }));
            if r.is_err() {
                ctx.harness(format!("gateway {} could not be constructed from a well-formed configuration", gi));
                return None;
            }
            let mut m = GwModel {
                domain: g.domain,
                retention: g.retention,
                min_delay: g.min_delay,
                epoch: 0,
                last_rotation: cfg.start_ts,
                by_epoch: BTreeMap::new(),
                by_hash: BTreeMap::new(),
                owner,
                former_owner: None,
                operator,
                former_operator: None,
                status: BTreeMap::new(),
            };
            for i in &g.initial {
                let h = cfg.pool[*i % cfg.pool.len()].hash();
                m.epoch += 1;
                m.by_epoch.insert(m.epoch, h);
                m.by_hash.insert(h, m.epoch);
            }
            let example = env.register(Example, (&addr, &gas));
            let mini = env.register(MiniApp, (&addr,));
            // misconfigured twins: the "gateway" of one is the gas service (a contract without
            // validate_message), of the other an address with no contract at all
            let bad_example = env.register(Example, (&gas, &gas));
            let bad_mini = env.register(MiniApp, (&Address::generate(&env),));
            gws.push(GwRt {
                addr,
                example,
                mini,
                bad_example,
                bad_mini,
                m,
                seen: BTreeMap::new(),
                approved_events: BTreeMap::new(),
                executed_events: BTreeMap::new(),
                delivered: BTreeMap::new(),
            });
        }
        sim.end_setup();
        let mut payload_by_hash = BTreeMap::new();
        for p in &cfg.payloads {
            let b = p.resolve();
            payload_by_hash.insert(keccak(&b), b);
        }
        Some(GExec {
            sim,
            cfg,
            keys,
            principals,
            gws,
            gas,
            token,
            history: vec![],
            known_sets,
            sweep_ctr: 0,
            payload_by_hash,
            user_gas_balance,
            gas_held: 0,
            in_tail: false,
        })
    }

    pub fn ngw(&self) -> usize {
        self.gws.len()
    }

    pub fn dest_addr(&self, d: u8) -> Address {
        if d >= 100 {
            // the account address that carries the same 32 bytes as destination d - 100
            return crate::host::account_twin(self.env(), &self.dest_addr(d - 100));
        }
        let n = if self.ngw() > 1 { 6 } else { 4 };
        match d as usize % n {
            0 => self.gws[0].example.clone(),
            1 => self.gws[0].mini.clone(),
            2 => self.principals[4].clone(),
            3 => self.principals[5].clone(),
            4 => self.gws[1].example.clone(),
            _ => self.gws[1].mini.clone(),
        }
    }
    /// principal index if the destination is an account the simulator can sign for
    pub fn dest_principal(&self, d: u8) -> Option<usize> {
        if d >= 100 {
            return None;
        }
        let n = if self.ngw() > 1 { 6 } else { 4 };
        match d as usize % n {
            2 => Some(4),
            3 => Some(5),
            _ => None,
        }
    }

    pub fn payload(&self, i: u8) -> Vec<u8> {
        self.cfg.payloads[i as usize % self.cfg.payloads.len()].resolve()
    }

    pub fn resolve_msg(&self, m: &MsgSpec) -> (MMsg, Vec<u8>) {
        let (chain, id) = IDS[m.id as usize % IDS.len()];
        // payload code 250: bytes crafted from the system's own data — the XDR of the message that is
        // currently approved under this (chain, id), so that keccak(payload) is that approval's commitment
        let payload = if m.payload == 250 {
            self.gws
                .iter()
                .find_map(|gw| match gw.m.status.get(&(chain.to_string(), id.to_string())) {
                    Some(MsgStatus::Approved(x)) => Some(xdr_of(&x.to_scval())),
                    _ => None,
                })
                .unwrap_or_else(|| self.payload(0))
        } else {
            self.payload(m.payload)
        };
        (
            MMsg {
                source_chain: chain.to_string(),
                message_id: id.to_string(),
                source_address: SRCS[m.src as usize % SRCS.len()].to_string(),
                contract: addr_bytes(&self.dest_addr(m.dest)),
                payload_hash: keccak(&payload),
                account: m.dest >= 100,
            },
            payload,
        )
    }

    pub fn msg_val(&self, m: &MMsg, dest: &Address) -> Message {
        let env = self.env();
        Message {
            source_chain: SStr::from_str(env, &m.source_chain),
            message_id: SStr::from_str(env, &m.message_id),
            source_address: SStr::from_str(env, &m.source_address),
            contract_address: dest.clone(),
            payload_hash: BytesN::from_array(env, &m.payload_hash),
        }
    }

    /// the destination address a message names (an account twin when `m.account`)
    pub fn addr_of_msg(&self, m: &MMsg) -> Address {
        let c = self.addr_of_contract_id(&m.contract);
        if m.account {
            crate::host::account_twin(self.env(), &c)
        } else {
            c
        }
    }

    pub fn addr_of_contract_id(&self, id: &[u8; 32]) -> Address {
        use soroban_sdk::xdr::{Hash, ScAddress};
        use soroban_sdk::TryFromVal;
        Address::try_from_val(self.env(), &ScAddress::Contract(Hash(*id))).unwrap()
    }

    pub fn cand(&self, c: &Cand) -> MSet {
        match c {
            Cand::Pool(i) => self.cfg.pool[*i as usize % self.cfg.pool.len()].clone(),
            Cand::Inline(s) => s.clone(),
        }
    }

    pub fn state_hash(&self) -> u64 {
        let ms: Vec<&GwModel> = self.gws.iter().map(|g| &g.m).collect();
        hash_of(&ms)
    }

    // ------------------------------------------------------------ proofs

    /// `tag`/`body` describe the command the proof is submitted for; the
    /// correct data hash is keccak(XDR([ [tag], body ])).
    pub fn build_proof(
        &mut self,
        g: usize,
        spec: &ProofSpec,
        data_hash: &[u8; 32],
        tag: &str,
        body: &ScVal,
    ) -> BuiltProof {
        let pool = &self.cfg.pool;
        let base = pool[spec.set as usize % pool.len()].clone();
        let mut declared = base.clone();
        let n = declared.signers.len().max(1);
        match &spec.tamper {
            Tamper::None => {}
            Tamper::Weight { i, delta } => {
                let i = *i as usize % n;
                if let Some(s) = declared.signers.get_mut(i) {
                    s.weight = if *delta >= 0 {
                        s.weight.saturating_add(*delta as u128 + 1)
                    } else {
                        s.weight.saturating_sub((-(*delta as i16)) as u128)
                    };
                }
                self.sim.count("F5.tamper_weight");
            }
            Tamper::Threshold { delta } => {
                declared.threshold = if *delta >= 0 {
                    declared.threshold.saturating_add(*delta as u128 + 1)
                } else {
                    declared.threshold.saturating_sub((-(*delta as i16)) as u128)
                };
                self.sim.count("F5.tamper_threshold");
            }
            Tamper::Nonce => {
                declared.nonce[31] ^= 1;
                self.sim.count("F5.tamper_nonce");
            }
            Tamper::Drop { i } => {
                if declared.signers.len() > 1 {
                    declared.signers.remove(*i as usize % n);
                }
                self.sim.count("F5.tamper_drop");
            }
            Tamper::Add { key } => {
                let k = *key as usize % N_KEYS;
                declared.signers.push(MSigner {
                    key: self.keys.pubs[k],
                    weight: 1,
                    key_id: Some(k as u8),
                });
                declared.signers.sort_by_key(|s| s.key);
                self.sim.count("F5.tamper_add");
            }
            Tamper::Dup { i } => {
                let i = *i as usize % n;
                if let Some(s) = declared.signers.get(i).cloned() {
                    declared.signers.insert(i, s);
                }
                self.sim.count("F5.tamper_dup");
            }
            Tamper::DupMany { i, n: k } => {
                let i = *i as usize % n;
                if let Some(s) = declared.signers.get(i).cloned() {
                    for _ in 0..(1 + *k % 6) {
                        declared.signers.insert(i, s.clone());
                    }
                }
                self.sim.count("F5.tamper_dup_many");
            }
            Tamper::DupInflated { i } => {
                let i = *i as usize % n;
                if let Some(s) = declared.signers.get(i).cloned() {
                    let mut big = s.clone();
                    big.weight = u128::MAX / 2;
                    declared.signers.insert(i, big);
                }
                self.sim.count("F5.tamper_dup_inflated_weight");
            }
            Tamper::Swap { i, j } => {
                let (i, j) = (*i as usize % n, *j as usize % n);
                if i != j && declared.signers.len() > 1 {
                    declared.signers.swap(i, j);
                }
                self.sim.count("F5.tamper_swap");
            }
            Tamper::AsOtherSet { j } => {
                declared = pool[*j as usize % pool.len()].clone();
                self.sim.count("F5.declare_other_set");
            }
        }
        // what the signers sign
        let dv = &spec.digest;
        let domain = match dv.domain {
            0 => self.gws[g].m.domain,
            1 => {
                self.sim.count("F4.other_domain");
                if self.ngw() > 1 {
                    self.gws[(g + 1) % self.ngw()].m.domain
                } else {
                    keccak(b"some other gateway")
                }
            }
            _ => {
                self.sim.count("F4.random_domain");
                keccak(&self.gws[g].m.domain)
            }
        };
        let signed_data = match dv.data {
            0 => *data_hash,
            1 => {
                self.sim.count("F4.other_command");
                let other = if tag == "ApproveMessages" {
                    "RotateSigners"
                } else {
                    "ApproveMessages"
                };
                keccak(&xdr_of(&svec(vec![svec(vec![sym(other)]), body.clone()])))
            }
            2 => {
                self.sim.count("F4.random_data");
                keccak(data_hash)
            }
            _ => {
                self.sim.count("F4.other_batch");
                // same command, altered body: wrap the body once more
                keccak(&xdr_of(&svec(vec![
                    svec(vec![sym(tag)]),
                    svec(vec![body.clone()]),
                ])))
            }
        };
        let set_hash = match dv.set_hash {
            0 => declared.hash(),
            1 => base.hash(),
            _ => {
                self.sim.count("F4.other_set_hash");
                pool[(spec.set as usize + 1) % pool.len()].hash()
            }
        };
        let digest = signing_digest(&domain, &set_hash, &signed_data);
        let mut sigs: Vec<Option<[u8; 64]>> = vec![];
        for (p, s) in declared.signers.iter().enumerate() {
            if p < 64 && (spec.mask >> p) & 1 == 1 {
                match s.key_id {
                    Some(k) => sigs.push(Some(self.keys.sign(k, &digest))),
                    None => sigs.push(None),
                }
            } else {
                sigs.push(None);
            }
        }
        let ns = sigs.len().max(1);
        match &spec.sig_fault {
            SigFault::None => {}
            SigFault::OtherDigest { i } => {
                let i = *i as usize % ns;
                if let (Some(Some(_)), Some(k)) =
                    (sigs.get(i), declared.signers.get(i).and_then(|s| s.key_id))
                {
                    sigs[i] = Some(self.keys.sign(k, &keccak(&digest)));
                    self.sim.count("F5.sig_other_digest");
                }
            }
            SigFault::OtherKey { i, key } => {
                let i = *i as usize % ns;
                if let Some(Some(_)) = sigs.get(i) {
                    sigs[i] = Some(self.keys.sign(*key % N_KEYS as u8, &digest));
                    self.sim.count("F5.sig_other_key");
                }
            }
            SigFault::BitFlip { i, bit } => {
                let i = *i as usize % ns;
                if let Some(Some(s)) = sigs.get_mut(i) {
                    let b = *bit as usize % 512;
                    s[b / 8] ^= 1 << (b % 8);
                    self.sim.count("F5.sig_bit_flip");
                }
            }
            SigFault::Garbage { i } => {
                let i = *i as usize % ns;
                if let Some(slot) = sigs.get_mut(i) {
                    let mut g = [0u8; 64];
                    g[..32].copy_from_slice(&keccak(b"garbage-a"));
                    g[32..].copy_from_slice(&keccak(b"garbage-b"));
                    *slot = Some(g);
                    self.sim.count("F5.sig_garbage");
                }
            }
        }
        BuiltProof { declared, sigs }
    }

    /// Independent verdict on a proof for `data_hash` at gateway `g`:
    /// Ok(is_latest) or the first reason it must be refused.
    pub fn judge_proof(
        &mut self,
        g: usize,
        p: &BuiltProof,
        data_hash: &[u8; 32],
    ) -> Result<bool, &'static str> {
        let m = &self.gws[g].m;
        let h = p.declared.hash();
        let Some(e) = m.by_hash.get(&h).copied() else {
            return Err("set-not-installed");
        };
        if m.epoch - e > m.retention {
            return Err("set-outdated");
        }
        let d = signing_digest(&m.domain, &h, data_hash);
        let mut total: u128 = 0;
        let n = p.declared.signers.len();
        for (i, (s, sig)) in p.declared.signers.iter().zip(p.sigs.iter()).enumerate() {
            if let Some(sig) = sig {
                if !sig_valid(&s.key, &d, sig) {
                    return Err("invalid-signature");
                }
                total = match total.checked_add(s.weight) {
                    Some(t) => t,
                    None => return Err("weight-overflow"),
                };
                if total >= p.declared.threshold {
                    if total == p.declared.threshold {
                        self.sim.count("probe.exact_threshold_accepted");
                    }
                    if i == n - 1 && n > 1 {
                        self.sim.count("probe.threshold_reached_by_last_signer");
                    }
                    if p.sigs[i + 1..].iter().any(|x| x.is_some()) {
                        self.sim.count("probe.signatures_after_threshold_unjudged");
                    }
                    if p.sigs[..i].iter().any(|x| x.is_none()) {
                        self.sim.count("probe.non_prefix_subset_accepted");
                    }
                    return Ok(e == m.epoch);
                }
            }
        }
        Err("threshold-not-met")
    }

    // ------------------------------------------------------------ generic judging helpers

    pub fn note_abort(&mut self, ctx: &mut Ctx, res: &CallResult, props: &[&'static str]) -> bool {
        match res.abort {
            AbortStatus::Landed => ctx.count("F8.abort_landed"),
            AbortStatus::Completed => ctx.count("F8.abort_completed_under_limit"),
            AbortStatus::Skipped => ctx.count("F8.abort_skipped_no_cost_yet"),
            AbortStatus::NotRequested => {}
        }
        if let Some(l) = &res.abort_leak {
            let l = l.clone();
            let _ = props;
            ctx.harness(l);
            return false;
        }
        true
    }

    /// A call the model says must be refused: it must fail and change nothing.
    pub fn must_fail(
        &mut self,
        ctx: &mut Ctx,
        res: &CallResult,
        props: &[&'static str],
        class_accepted: &str,
        why: &str,
    ) -> bool {
        if !ctx.check(res.out.is_err(), props, class_accepted, || {
            format!("expected refusal ({}) but the call succeeded", why)
        }) {
            return false;
        }
        ctx.check(
            res.unchanged_full() && res.events.is_empty(),
            props,
            "refused-call-changed-state",
            || format!("refused call ({}) changed the ledger or emitted events", why),
        )
    }

    pub fn panic_guard(&mut self, ctx: &mut Ctx, res: &CallResult, what: &str) -> bool {
        if let Some(m) = &res.auth_demand_mismatch {
            // AuthVar::Everyone: the authorisation a principal was asked for must be the call as made
            if !ctx.check(false, &["C07", "C06", "C13", "C02", "C09"], "auth/demanded-authorisation-does-not-bind-the-call", || m.clone()) {
                return false;
            }
        }
        if let Outcome::Err(e) = &res.out {
            if e.panic && res.abort != AbortStatus::Completed {
                ctx.harness(format!("{}: panic escaped the host under an unlimited budget: {}", what, e.text));
                return false;
            }
        }
        true
    }

    // ------------------------------------------------------------ approve

    pub fn do_approve(
        &mut self,
        ctx: &mut Ctx,
        gw: u8,
        proof: &ProofSpec,
        msgs: &[MsgSpec],
        abort: Option<u16>,
    ) {
        let g = gw as usize % self.ngw();
        let resolved: Vec<MMsg> = msgs.iter().map(|m| self.resolve_msg(m).0).collect();
        let dests: Vec<Address> = msgs.iter().map(|m| self.dest_addr(m.dest)).collect();
        self.approve_resolved(ctx, g, proof, &resolved, &dests, abort, &["C01", "C02"]);
    }

    pub fn approve_resolved(
        &mut self,
        ctx: &mut Ctx,
        g: usize,
        proof: &ProofSpec,
        resolved: &[MMsg],
        dests: &[Address],
        abort: Option<u16>,
        props: &[&'static str],
    ) -> bool {
        let env = self.env().clone();
        let data_hash = approve_data_hash(resolved);
        let body = svec(resolved.iter().map(|m| m.to_scval()).collect());
        let built = self.build_proof(g, proof, &data_hash, "ApproveMessages", &body);
        let verdict = self.judge_proof(g, &built, &data_hash);
        let expect_ok = verdict.is_ok() && !resolved.is_empty();
        if verdict.is_ok() && proof.tamper != Tamper::None {
            ctx.count("probe.tampered_declaration_equals_an_installed_set");
        }
        if verdict.is_ok() && !proof.digest.honest() {
            ctx.count("probe.misdelivered_proof_still_valid_here");
        }
        for m in resolved.iter() {
            let twin = if m.source_chain == "ab" && m.message_id == "c" { Some(("a", "bc")) } else if m.source_chain == "a" && m.message_id == "bc" { Some(("ab", "c")) } else { None };
            if let Some((c, i)) = twin {
                if expect_ok && self.gws[g].m.status.contains_key(&(c.to_string(), i.to_string())) {
                    ctx.count("probe.split_collision_pair_both_known");
                }
            }
        }
        let st = self.state_hash();
        ctx.judged(
            &["C01", "C02", "C08"],
            st,
            "approve",
            match &verdict {
                Ok(_) if resolved.is_empty() => "empty-batch",
                Ok(_) => "accept",
                Err(r) => r,
            },
        );
        let mut mv: SVec<Message> = SVec::new(&env);
        for (m, d) in resolved.iter().zip(dests.iter()) {
            mv.push_back(self.msg_val(m, d));
        }
        let pv = proof_to_val(&env, &built);
        let gaddr = self.gws[g].addr.clone();
        let args: SVec<Val> = (mv, pv).into_val(&env);
        let res = self.sim.call(&gaddr, "approve_messages", args, &[], abort);
        ctx.trace_str(res.out.class());
        ctx.note(|| format!("approve gw{} {} msgs verdict={:?} -> {}", g, resolved.len(), verdict, res.out.err_text()));
        if !self.panic_guard(ctx, &res, "approve_messages") || !self.note_abort(ctx, &res, props) {
            return false;
        }
        ctx.count(&format!("op.approve.{}.{}", if expect_ok { "accept" } else { "refuse" }, res.out.class()));
        if !expect_ok {
            let why = match &verdict {
                Err(r) => *r,
                Ok(_) => "empty-batch",
            };
            if !proof.digest.honest() && verdict.is_err() {
                ctx.count("probe.misdelivered_proof_refused");
            }
            let cls = format!("approve/accepted:{}", why);
            let with_c08: Vec<&'static str> = props.iter().copied().chain(std::iter::once("C08")).collect();
            let tags: &[&'static str] = if why == "set-outdated" { &with_c08 } else { props };
            if !self.must_fail(ctx, &res, tags, &cls, why) {
                return false;
            }
            // every message of the batch still reads as the model says
            return self.check_batch_status(ctx, g, resolved, dests, props);
        }
        // a retained set that is refused is also C08's "stay valid" direction
        let with_c08b: Vec<&'static str> = props.iter().copied().chain(std::iter::once("C08")).collect();
        if !ctx.check(res.out.is_ok(), &with_c08b, "approve/honest-proof-refused", || {
            format!(
                "a proof with sufficient valid signatures from a retained set was refused: {}",
                res.out.err_text()
            )
        }) {
            return false;
        }
        // an executed message must stay executed whatever is approved afterwards (this is
        // what "cannot be delivered again" rests on, hence also tagged C16)
        for (m, d) in resolved.iter().zip(dests.iter()) {
            let key = (m.source_chain.clone(), m.message_id.clone());
            if matches!(self.gws[g].m.status.get(&key), Some(MsgStatus::Executed)) {
                let mv = self.msg_val(m, d);
                let e = self.sim.query(&gaddr, "is_message_executed", (mv.source_chain.clone(), mv.message_id.clone()).into_val(&env));
                let ev = e.val().and_then(|v| bool::try_from(v).ok());
                if !ctx.check(ev == Some(true), &["C02", "C16"], "approve/reopened-executed-id", || {
                    format!("re-approval of the executed message ({:?},{:?}) made it deliverable again", m.source_chain, m.message_id)
                }) {
                    return false;
                }
            }
        }
        // effects
        let mut expected: Vec<Ev> = vec![];
        let mut fresh = 0;
        for m in resolved.iter() {
            let key = (m.source_chain.clone(), m.message_id.clone());
            if self.gws[g].m.status.contains_key(&key) {
                match self.gws[g].m.status.get(&key) {
                    Some(MsgStatus::Executed) => {
                        ctx.count("probe.reapprove_executed_id");
                        if let Some(MsgStatus::Executed) = self.gws[g].m.status.get(&key) {}
                    }
                    Some(MsgStatus::Approved(old)) => {
                        if old != m {
                            ctx.count("probe.reapprove_with_other_content");
                        }
                    }
                    None => {}
                }
                continue;
            }
            self.gws[g].m.status.insert(key.clone(), MsgStatus::Approved(m.clone()));
            *self.gws[g].approved_events.entry(key).or_insert(0) += 1;
            fresh += 1;
            expected.push(Ev {
                contract: addr_bytes(&gaddr),
                topics: vec![sym("message_approved"), m.to_scval()],
                data: ScVal::Void,
            });
        }
        if !ctx.check(crate::judge::events_match(&res.events, &expected, &["message_approved"]), props, "approve/wrong-events", || {
            format!(
                "expected {} message_approved event(s) for the new ids only, got {:?}",
                expected.len(),
                res.events.iter().map(|e| e.name()).collect::<Vec<_>>()
            )
        }) {
            return false;
        }
        if fresh == 0 {
            // nothing new: no approval event (checked above) and, below, every id of the batch
            // still reads exactly as before.  Ledger data as such is not compared: the statement
            // speaks of recorded content and status, not of bytes.
            ctx.count("probe.batch_of_known_ids_only");
        }
        self.check_batch_status(ctx, g, resolved, dests, props)
    }

    fn check_batch_status(
        &mut self,
        ctx: &mut Ctx,
        g: usize,
        resolved: &[MMsg],
        dests: &[Address],
        props: &[&'static str],
    ) -> bool {
        for (m, d) in resolved.iter().zip(dests.iter()) {
            if !self.check_status(ctx, g, m, d, props) {
                return false;
            }
        }
        true
    }

    /// The gateway no longer reports a delivered message as executed.  That alone is the gateway's
    /// status property; for the application the question is whether the message can now reach it
    /// again by legal steps: the newest signer set approves the same message once more and the same
    /// delivery is repeated.  false = the application acted a second time (violation recorded).
    fn redelivery_probe(&mut self, ctx: &mut Ctx, g: usize, key: &(String, String)) -> bool {
        let Some((claimed, payload, app_addr)) = self.gws[g].delivered.get(key).cloned() else { return true };
        let env = self.env().clone();
        let latest_h = self.gws[g].m.by_epoch.get(&self.gws[g].m.epoch).copied();
        let latest_pool = latest_h.and_then(|h| self.known_sets.get(&h).cloned()).and_then(|s| self.cfg.pool.iter().position(|p| *p == s));
        let Some(lp) = latest_pool else { return true };
        ctx.count("probe.redelivery_after_lost_executed_marker");
        let spec = ProofSpec { set: lp as u8, mask: u64::MAX, tamper: Tamper::None, sig_fault: SigFault::None, digest: DigestVar::default() };
        let resolved = [claimed.clone()];
        let data_hash = approve_data_hash(&resolved);
        let body = svec(resolved.iter().map(|m| m.to_scval()).collect());
        let built = self.build_proof(g, &spec, &data_hash, "ApproveMessages", &body);
        let mut mv: SVec<Message> = SVec::new(&env);
        mv.push_back(self.msg_val(&claimed, &app_addr));
        let pv = proof_to_val(&env, &built);
        let gaddr = self.gws[g].addr.clone();
        let args: SVec<Val> = (mv, pv).into_val(&env);
        let _ = self.sim.call(&gaddr, "approve_messages", args, &[], None);
        let args: SVec<Val> = (
            SStr::from_str(&env, &claimed.source_chain),
            SStr::from_str(&env, &claimed.message_id),
            SStr::from_str(&env, &claimed.source_address),
            Bytes::from_slice(&env, &payload),
        )
            .into_val(&env);
        let res = self.sim.call(&app_addr, "execute", args, &[], None);
        let app_events = res.events.iter().filter(|e| e.contract == addr_bytes(&app_addr)).count();
        ctx.check(res.out.is_err() && app_events == 0, &["C16"], "deliver/delivered-message-delivered-again", || {
            format!(
                "message {:?} was delivered, the gateway then stopped reporting it as executed, and after an honest re-approval the same delivery succeeded again ({} app event(s))",
                key, app_events
            )
        })
    }

    /// is_message_approved(full fields) and is_message_executed against the model
    pub fn check_status(
        &mut self,
        ctx: &mut Ctx,
        g: usize,
        m: &MMsg,
        dest: &Address,
        props: &[&'static str],
    ) -> bool {
        let env = self.env().clone();
        let key = (m.source_chain.clone(), m.message_id.clone());
        let st = self.gws[g].m.status.get(&key).cloned();
        let exp_approved = matches!(&st, Some(MsgStatus::Approved(x)) if x == m);
        let exp_executed = matches!(&st, Some(MsgStatus::Executed));
        let gaddr = self.gws[g].addr.clone();
        let mv = self.msg_val(m, dest);
        let a = self.sim.query(
            &gaddr,
            "is_message_approved",
            (
                mv.source_chain.clone(),
                mv.message_id.clone(),
                mv.source_address.clone(),
                mv.contract_address.clone(),
                mv.payload_hash.clone(),
            )
                .into_val(&env),
        );
        let e = self.sim.query(
            &gaddr,
            "is_message_executed",
            (mv.source_chain.clone(), mv.message_id.clone()).into_val(&env),
        );
        let av = a.val().and_then(|v| bool::try_from(v).ok());
        let evv = e.val().and_then(|v| bool::try_from(v).ok());
        if !ctx.check(av == Some(exp_approved), props, "query/is-approved-disagrees", || {
            format!(
                "is_message_approved({:?},{:?}) = {:?}, history says {}",
                m.source_chain, m.message_id, av, exp_approved
            )
        }) {
            return false;
        }
        if exp_executed && evv == Some(false) && ctx.focus == "C16" && !self.redelivery_probe(ctx, g, &key) {
            return false;
        }
        if !ctx.check(evv == Some(exp_executed), props, "query/is-executed-disagrees", || {
            format!(
                "is_message_executed({:?},{:?}) = {:?}, history says {}",
                m.source_chain, m.message_id, evv, exp_executed
            )
        }) {
            return false;
        }
        // monotone status as seen by queries: 0 none, 1 approved, 2 executed
        let level = if exp_executed {
            2
        } else if st.is_some() {
            1
        } else {
            0
        };
        let seen = self.gws[g].seen.entry(key).or_insert(0);
        if !ctx.check(level >= *seen, &["C02"], "history/status-moved-backwards", || {
            "message status moved backwards".to_string()
        }) {
            return false;
        }
        *seen = level;
        true
    }

    // ------------------------------------------------------------ validate_proof

    pub fn do_validate_proof(&mut self, ctx: &mut Ctx, gw: u8, proof: &ProofSpec, data: &DataSpec) {
        let g = gw as usize % self.ngw();
        let env = self.env().clone();
        let (data_hash, tag, body): ([u8; 32], &str, ScVal) = match data {
            DataSpec::Random(t) => (keccak(&t.to_le_bytes()), "ApproveMessages", svec(vec![])),
            DataSpec::ApproveOf(ms) => {
                let r: Vec<MMsg> = ms.iter().map(|m| self.resolve_msg(m).0).collect();
                (
                    approve_data_hash(&r),
                    "ApproveMessages",
                    svec(r.iter().map(|m| m.to_scval()).collect()),
                )
            }
            DataSpec::RotationOf(c) => {
                let s = self.cand(c);
                (s.rotation_data_hash(), "RotateSigners", s.to_scval())
            }
        };
        let built = self.build_proof(g, proof, &data_hash, tag, &body);
        let verdict = self.judge_proof(g, &built, &data_hash);
        let st = self.state_hash();
        ctx.judged(
            &["C01", "C08"],
            st,
            "validate_proof",
            match &verdict {
                Ok(true) => "latest",
                Ok(false) => "retained",
                Err(r) => r,
            },
        );
        let gaddr = self.gws[g].addr.clone();
        let args: SVec<Val> =
            (BytesN::from_array(&env, &data_hash), proof_to_val(&env, &built)).into_val(&env);
        let res = self.sim.call(&gaddr, "validate_proof", args, &[], None);
        ctx.trace_str(res.out.class());
        ctx.note(|| format!("validate_proof gw{} verdict={:?} -> {}", g, verdict, res.out.err_text()));
        if !self.panic_guard(ctx, &res, "validate_proof") {
            return;
        }
        ctx.count(&format!("op.validate_proof.{}.{}", if verdict.is_ok() { "accept" } else { "refuse" }, res.out.class()));
        match verdict {
            Err(why) => {
                let cls = format!("validate_proof/accepted:{}", why);
                self.must_fail(ctx, &res, &["C01", "C08"], &cls, why);
            }
            Ok(latest) => {
                if !ctx.check(res.out.is_ok(), &["C01", "C08"], "validate_proof/honest-proof-refused", || {
                    format!("valid proof from a retained set refused: {}", res.out.err_text())
                }) {
                    return;
                }
                let got = res.out.val().and_then(|v| bool::try_from(v).ok());
                if !ctx.check(got == Some(latest), &["C08"], "validate_proof/latest-flag", || {
                    format!("validate_proof returned {:?}, the proof's set is latest = {}", got, latest)
                }) {
                    return;
                }
                // (no expectation on ledger data here: the properties do not forbid an accepted
                // proof check from writing, e.g. a verdict cache; what a stale cache would break
                // is caught where it matters, by the retention and latest-set expectations)
                ctx.check(res.events.iter().all(|e| e.name() != "message_approved" && e.name() != "signers_rotated"), &["C01"], "validate_proof/approved-or-rotated", || {
                    "the standalone proof check approved a message or rotated signers".to_string()
                });
            }
        }
    }

    // ------------------------------------------------------------ consume (validate_message)

    pub fn do_consume(
        &mut self,
        ctx: &mut Ctx,
        gw: u8,
        caller: u8,
        msg: &MsgSpec,
        auth: AuthVar,
        abort: Option<u16>,
    ) {
        let g = gw as usize % self.ngw();
        let env = self.env().clone();
        let (m, _payload) = self.resolve_msg(msg);
        let gaddr = self.gws[g].addr.clone();
        // caller 200: the gateway's own address named as caller from outside
        let (caller_addr, caller_p) = if caller == 200 { (gaddr.clone(), None) } else { (self.dest_addr(caller), self.dest_principal(caller)) };
        let args: SVec<Val> = (
            caller_addr.clone(),
            SStr::from_str(&env, &m.source_chain),
            SStr::from_str(&env, &m.message_id),
            SStr::from_str(&env, &m.source_address),
            BytesN::from_array(&env, &m.payload_hash),
        )
            .into_val(&env);
        // who authorises
        let mut entries = vec![];
        let mut auth_ok = false;
        let who: Option<usize> = match auth {
            AuthVar::Right | AuthVar::Everyone => caller_p,
            AuthVar::Counterparty => Some(6),
            AuthVar::Owner => Some(self.gws[g].m.owner),
            AuthVar::Stranger | AuthVar::Former | AuthVar::OtherRole => Some(P_STRANGER),
            AuthVar::Nobody => None,
            AuthVar::RightOtherArgs | AuthVar::RootOnly => caller_p,
        };
        if auth == AuthVar::Everyone && caller_p.is_some() {
            self.sim.permissive_next = true;
        }
        if let Some(w) = who {
            let mut a = args.clone();
            if matches!(auth, AuthVar::RightOtherArgs | AuthVar::RootOnly) {
                // same principal, but the payload hash it authorised differs
                let mut h = m.payload_hash;
                h[0] ^= 0x80;
                a.set(4, BytesN::from_array(&env, &h).into_val(&env));
            }
            entries.push(AuthEntry {
                who: self.principals[w].clone(),
                root: AuthNode::new(&gaddr, "validate_message", a),
            });
            auth_ok = caller_p == Some(w) && !matches!(auth, AuthVar::RightOtherArgs | AuthVar::RootOnly);
        }
        if auth.is_fault() {
            ctx.count(&format!("F7.consume.{}", auth.name()));
        }
        // what the caller claims is matched against the approval with the
        // caller itself as destination
        let claimed = MMsg {
            contract: addr_bytes(&caller_addr),
            account: false,
            ..m.clone()
        };
        let key = (m.source_chain.clone(), m.message_id.clone());
        let st = self.gws[g].m.status.get(&key).cloned();
        let matches = matches!(&st, Some(MsgStatus::Approved(x)) if *x == claimed);
        if let Some(MsgStatus::Approved(x)) = &st {
            if x.contract != claimed.contract && auth_ok {
                ctx.count("probe.consume_by_non_destination");
            }
        }
        let sh = self.state_hash();
        ctx.judged(
            &["C02", "C07"],
            sh,
            "consume",
            if !auth_ok {
                "unauthorised"
            } else if matches {
                "true"
            } else {
                "false"
            },
        );
        let res = self.sim.call(&gaddr, "validate_message", args, &entries, abort);
        ctx.trace_str(res.out.class());
        ctx.note(|| format!("consume gw{} caller={} auth={:?} matches={} -> {}", g, caller, auth, matches, res.out.err_text()));
        if !self.panic_guard(ctx, &res, "validate_message") || !self.note_abort(ctx, &res, &["C02"]) {
            return;
        }
        ctx.count(&format!("op.consume.{}.{}", if !auth_ok { "unauth" } else if matches { "true" } else { "false" }, res.out.class()));
        if !auth_ok {
            self.must_fail(ctx, &res, &["C07", "C02"], "consume/accepted-without-callers-auth", "caller did not authorise");
            return;
        }
        if !ctx.check(res.out.is_ok(), &["C02"], "consume/authorised-call-failed", || {
            format!("validate_message by the authorised caller failed: {}", res.out.err_text())
        }) {
            return;
        }
        let got = res.out.val().and_then(|v| bool::try_from(v).ok());
        if !ctx.check(got == Some(matches), &["C02"], if matches { "consume/matching-approval-not-consumed" } else { "consume/consumed-without-matching-approval" }, || {
            format!("validate_message returned {:?}; model status {:?}, claimed {:?}", got, st, claimed)
        }) {
            return;
        }
        if matches {
            self.gws[g].m.status.insert(key.clone(), MsgStatus::Executed);
            *self.gws[g].executed_events.entry(key).or_insert(0) += 1;
            let exp = vec![Ev {
                contract: addr_bytes(&gaddr),
                topics: vec![sym("message_executed"), claimed.to_scval()],
                data: ScVal::Void,
            }];
            ctx.check(crate::judge::events_match(&res.events, &exp, &[]), &["C02"], "consume/wrong-events", || {
                format!("expected one message_executed event, got {:?}", res.events.iter().map(|e| e.name()).collect::<Vec<_>>())
            });
        } else {
            // a refusal by return value: no execution / approval event, and the status of this
            // id (and, in the per-step invariants, of every other known id) reads as before
            if !ctx.check(res.events.iter().all(|e| e.name() != "message_executed" && e.name() != "message_approved"), &["C02"], "consume/refusal-emitted-event", || {
                "validate_message returned false but announced an execution or approval".to_string()
            }) {
                return;
            }
            let d = self.addr_of_contract_id(&claimed.contract);
            self.check_status(ctx, g, &claimed, &d, &["C02"]);
        }
    }

    // ------------------------------------------------------------ deliver (app.execute)

    pub fn do_deliver(&mut self, ctx: &mut Ctx, gw: u8, app: u8, msg: &MsgSpec, abort: Option<u16>) {
        let g = gw as usize % self.ngw();
        let env = self.env().clone();
        let (m, payload) = self.resolve_msg(msg);
        let is_example = app % 2 == 0;
        let misconfigured = app % 4 >= 2;
        let app_addr = match app % 4 {
            0 => self.gws[g].example.clone(),
            1 => self.gws[g].mini.clone(),
            2 => self.gws[g].bad_example.clone(),
            _ => self.gws[g].bad_mini.clone(),
        };
        let gaddr = self.gws[g].addr.clone();
        let claimed = MMsg {
            contract: addr_bytes(&app_addr),
            account: false,
            ..m.clone()
        };
        let key = (m.source_chain.clone(), m.message_id.clone());
        let st = self.gws[g].m.status.get(&key).cloned();
        let matches = !misconfigured && matches!(&st, Some(MsgStatus::Approved(x)) if *x == claimed);
        let why = match &st {
            _ if misconfigured => "app-trusts-no-gateway",
            None => "never-approved",
            Some(MsgStatus::Executed) => "already-executed",
            Some(MsgStatus::Approved(x)) if *x == claimed => "conforming",
            Some(MsgStatus::Approved(x)) if x.contract != claimed.contract => "approved-for-another-app",
            Some(MsgStatus::Approved(x)) if x.payload_hash != claimed.payload_hash => "approved-with-other-payload",
            Some(MsgStatus::Approved(x)) if x.source_address != claimed.source_address => "approved-with-other-source-address",
            Some(MsgStatus::Approved(_)) => "approved-with-other-fields",
        };
        ctx.count(&format!("probe.deliver.{}", why));
        let sh = self.state_hash();
        ctx.judged(&["C16", "C02"], sh, if is_example { "deliver-example" } else { "deliver-mini" }, why);
        let args: SVec<Val> = (
            SStr::from_str(&env, &m.source_chain),
            SStr::from_str(&env, &m.message_id),
            SStr::from_str(&env, &m.source_address),
            Bytes::from_slice(&env, &payload),
        )
            .into_val(&env);
        let res = self.sim.call(&app_addr, "execute", args, &[], abort);
        ctx.trace_str(res.out.class());
        ctx.note(|| format!("deliver gw{} app={} {} -> {}", g, if is_example { "example" } else { "mini" }, why, res.out.err_text()));
        if !self.panic_guard(ctx, &res, "execute") || !self.note_abort(ctx, &res, &["C16"]) {
            return;
        }
        ctx.count(&format!("op.deliver.{}.{}", why, res.out.class()));
        if !matches {
            // the app must not act: in particular no app event may survive
            let app_events = res.events.iter().filter(|e| e.contract == addr_bytes(&app_addr)).count();
            if !ctx.check(app_events == 0 && res.out.is_err(), &["C16"], &format!("deliver/app-acted:{}", why), || {
                format!(
                    "delivery ({}) to the {} app: result {}, {} app event(s)",
                    why,
                    if is_example { "example" } else { "minimal" },
                    res.out.class(),
                    app_events
                )
            }) {
                return;
            }
            ctx.check(res.unchanged_full() && res.events.is_empty(), &["C16"], "deliver/refused-delivery-changed-state", || {
                "a refused delivery changed the ledger".to_string()
            });
            return;
        }
        if !ctx.check(res.out.is_ok(), &["C16"], "deliver/conforming-delivery-failed", || {
            format!("delivery of an approved message failed: {}", res.out.err_text())
        }) {
            return;
        }
        self.gws[g].m.status.insert(key.clone(), MsgStatus::Executed);
        self.gws[g].delivered.insert(key.clone(), (claimed.clone(), payload.clone(), app_addr.clone()));
        *self.gws[g].executed_events.entry(key).or_insert(0) += 1;
        let gw_ev = Ev {
            contract: addr_bytes(&gaddr),
            topics: vec![sym("message_executed"), claimed.to_scval()],
            data: ScVal::Void,
        };
        let app_ev = Ev {
            contract: addr_bytes(&app_addr),
            topics: vec![
                sym(if is_example { "executed" } else { "mini_executed" }),
                sstr(&m.source_chain),
                sstr(&m.message_id),
                sstr(&m.source_address),
            ],
            data: svec(vec![sbytes(&payload)]),
        };
        ctx.check(crate::judge::events_match(&res.events, &[gw_ev, app_ev], &[]), &["C16", "C02"], "deliver/wrong-events", || {
            format!("expected message_executed + app event, got {:?}", res.events.iter().map(|e| e.name()).collect::<Vec<_>>())
        });
    }

    pub fn do_query(&mut self, ctx: &mut Ctx, gw: u8, msg: &MsgSpec) {
        let g = gw as usize % self.ngw();
        let (m, _) = self.resolve_msg(msg);
        let d = self.dest_addr(msg.dest);
        let sh = self.state_hash();
        ctx.judged(&["C02"], sh, "query", "");
        self.check_status(ctx, g, &m, &d, &["C02"]);
        ctx.count("op.query");
    }
}

pub fn _unused(_: &Rng, _: &StrSpec, _: &PayloadSpec, _: &ClockMove, _: Verdict, _: Symbol) {
    let _ = svec_![&Env::default(), 1u32];
    let _: Option<Token> = None;
}
