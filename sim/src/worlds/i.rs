//! World I: generator and `World` implementation.

use super::i_exec::*;
use super::i_types::*;
use crate::common::{opt_abort, AuthVar};
use crate::engine::{Ctx, GenParams, World};
use crate::rng::Rng;
use serde_json::{json, Value};

pub struct WorldI;

fn gen_meta(rng: &mut Rng, valid_bias: bool) -> MetaSpec {
    if valid_bias && rng.chance(5, 6) {
        MetaSpec { name: rng.below(NAMES.len() as u64 - 1) as u8, symbol: rng.below(SYMS.len() as u64 - 1) as u8, decimals: *rng.pick(&[0u8, 1, 2, 3, 5]) }
    } else {
        MetaSpec { name: rng.below(NAMES.len() as u64) as u8, symbol: rng.below(SYMS.len() as u64) as u8, decimals: rng.below(8) as u8 }
    }
}

/// destination of an outbound message: an initially trusted chain (mostly), any chain, or — one time in
/// five — the chain whose trust changed most recently or the chain of the previous outbound message, so that
/// "used, un-trusted, used again" and "same destination twice" histories are frequent
fn dest_chain(rng: &mut Rng, cfg: &ICfg, ops: &[IOp]) -> u8 {
    if rng.chance(1, 5) {
        let recent = ops.iter().rev().find_map(|o| match o {
            IOp::Trust { chain, .. } => Some(*chain),
            _ => None,
        });
        let prev = ops.iter().rev().find_map(|o| match o {
            IOp::Send { chain, .. } | IOp::DeployRemote { chain, .. } | IOp::DeployRemoteCanonical { chain, .. } => Some(*chain),
            _ => None,
        });
        if let Some(c) = if rng.chance(1, 2) { recent.or(prev) } else { prev.or(recent) } {
            return c;
        }
    }
    if !cfg.initial_trusted.is_empty() && rng.chance(2, 3) {
        *rng.pick(&cfg.initial_trusted)
    } else {
        rng.below(CHAINS.len() as u64) as u8
    }
}

fn gen_dev(rng: &mut Rng, wire_only: bool) -> Dev {
    let k = if wire_only { rng.range(10, 18) } else { rng.below(20) };
    match k {
        0 => Dev::NeverApproved,
        1 => Dev::ApprovedOtherPayload,
        2 => Dev::ApprovedOtherId,
        3 => Dev::ApprovedOtherSourceAddress,
        4 => Dev::ApprovedOtherDestination,
        5 => Dev::SourceChainNotHub,
        6 => Dev::SourceAddressNotHub,
        7 => Dev::OuterTypeSend,
        8 => Dev::OuterTypeOther(*rng.pick(&[0u16, 1, 2, 5, 256, 65535])),
        9 => Dev::DeliverTwice,
        10 => Dev::InnerTypeUnsupported(*rng.pick(&[2u16, 3, 4, 5, 256])),
        11 => Dev::Truncated(rng.below(400) as u16),
        12 => Dev::Trailing(rng.below(64) as u8),
        13 => Dev::BitFlip(rng.next_u64() as u32),
        14 => Dev::DirtyPadding,
        15 => Dev::OffsetEdit(*rng.pick(&[-32i8, -1, 1, 32, 64])),
        16 => Dev::InnerTrailing(rng.below(3) as u8),
        17 => Dev::InnerDirtyWord(rng.below(2) as u8),
        18 => Dev::InnerDirtyPadding,
        _ => Dev::DeliverTwice,
    }
}

impl World for WorldI {
    const NAME: &'static str = "I";
    type Cfg = ICfg;
    type Op = IOp;

    fn components() -> Value {
        json!({
            "real": ["interchain-token-service incl. its alloy ABI codec (native, /repo)", "axelar-gateway (native, /repo)", "axelar-gas-service (native, /repo)", "soroban-env-host 22.1 incl. wasmi for deployed tokens", "Stellar Asset Contract (host built-in)"],
            "stub": ["tokens deployed by the service: the repository's PRE-BUILT contracts/interchain-token-service/tests/testdata/interchain_token.wasm (cannot be rebuilt offline; a change to contracts/interchain-token/src does not reach this world, it reaches world T)", "ITS hub: independent hand-written ABI encoder", "verifier set + relayer: keys and signing in the harness", "ExecApp (destination of transfers with data), ProbeToken (arbitrary metadata): harness contracts"]
        })
    }

    fn generate(rng: &mut Rng, p: GenParams) -> (ICfg, Vec<IOp>) {
        let focus = p.focus;
        let f_auth = p.faults && rng.chance(3, 4);
        let f_abort = p.faults && rng.chance(1, 2);
        let f_dup = p.faults && rng.chance(3, 4);
        let f_dev = p.faults && rng.chance(5, 6);
        let mut payloads: Vec<Vec<u8>> = vec![];
        for i in 0..3u8 {
            let len = *rng.pick(&[1usize, 5, 31, 32, 33, 100]);
            let mut v = vec![0u8; len];
            rng.fill(&mut v);
            if v[0] == 0xff {
                v[0] = 0x7f;
            }
            if i == 2 {
                v[0] = 0xff; // asks the destination app to trap
            }
            if i == 1 && rng.chance(1, 2) {
                // data that begins like a tag, a selector or a length a "helpful" layer might strip or reinterpret:
                // four zero bytes, 0x00000001, a 32-byte zero word
                let mut t: Vec<u8> = match rng.below(3) {
                    0 => vec![0, 0, 0, 0],
                    1 => vec![0, 0, 0, 1],
                    _ => vec![0u8; 32],
                };
                t.extend_from_slice(&v);
                if rng.chance(1, 4) {
                    t.truncate(4);
                }
                v = t;
            }
            payloads.push(v);
        }
        payloads.push(vec![]); // Some(empty) must behave like no data
        let mut initial_trusted: Vec<u8> = vec![];
        for c in 0..CHAINS.len() as u8 {
            if rng.chance(1, 2) {
                initial_trusted.push(c);
            }
        }
        let cfg = ICfg {
            chain_name: rng.pick(&["stellar", "chain_name", "stellar-2025-q1", "", "stéllar-链", "axelar", "Stellar", "STELLAR-2025-Q1", "stellar ", "stellar\0"]).to_string(),
            hub_address: rng.pick(&["axelar1hubaddressxyz", "its_hub_address", "h", "", "Axelar1HubAddressXYZ"]).to_string(),
            n_signers: rng.range(1, 3) as u8,
            probe_meta: [gen_meta(rng, true), gen_meta(rng, false)],
            payloads,
            initial_trusted,
        };
        // trust deploy register send deploy_remote deploy_remote_canonical inbound minter_mint ownership resubmit
        let mut w: [u32; 10] = match focus {
            "C04" => [10, 6, 5, 5, 1, 1, 60, 1, 1, 8],
            "C05" => [6, 9, 8, 30, 1, 1, 28, 5, 1, 8],
            "C10" => [4, 8, 6, 4, 2, 2, 70, 1, 1, 4],
            "C11" => [4, 30, 14, 5, 1, 1, 34, 4, 1, 8],
            "C18" => [12, 10, 12, 2, 26, 26, 2, 1, 1, 6],
            "C06" => [45, 3, 3, 3, 2, 2, 5, 1, 28, 8],
            "C07" => [5, 18, 4, 30, 18, 18, 2, 1, 1, 6],
            "C13" => [6, 8, 8, 35, 16, 16, 2, 1, 1, 5],
            _ => [8, 10, 8, 15, 8, 8, 30, 3, 2, 8],
        };
        if !f_dup {
            w[9] = 0;
        }
        let n = rng.range(12, if p.thorough { 50 } else { 36 }) as usize;
        let mut ops: Vec<IOp> = vec![];
        // honest prefix so that tokens exist
        if rng.chance(5, 6) {
            ops.push(IOp::Deploy { caller: rng.below(4) as u8, salt: 0, meta: gen_meta(rng, true), supply: *rng.pick(&[1000i64, 7, 50_000]), minter: MinterSpec::None, auth: AuthVar::Right, abort: None });
            ops.push(IOp::Register { tok: rng.below(2) as u8, abort: None });
            if rng.chance(1, 2) {
                ops.push(IOp::Register { tok: 2 + rng.below(2) as u8, abort: None });
            }
            if rng.chance(1, 2) {
                ops.push(IOp::Trust { chain: rng.below(3) as u8, set: true, auth: AuthVar::Right, abort: None });
            }
        }
        for _ in 0..n {
            let fault = f_auth && rng.chance(1, if matches!(focus, "C06" | "C07") { 2 } else { 5 });
            let abort = opt_abort(rng, f_abort, 120);
            let user_fault = |rng: &mut Rng| *rng.pick(&[AuthVar::Counterparty, AuthVar::Owner, AuthVar::Stranger, AuthVar::Nobody, AuthVar::RightOtherArgs, AuthVar::RootOnly]);
            let op = match rng.weighted(&w) {
                0 => IOp::Trust {
                    // half of the time the chain the most recent outbound message (or inbound origin) named, so that
                    // "used, then un-trusted, then used again" histories are common whatever the size of the pool
                    chain: {
                        let recent = ops.iter().rev().find_map(|o| match o {
                            IOp::Send { chain, .. } | IOp::DeployRemote { chain, .. } | IOp::DeployRemoteCanonical { chain, .. } => Some(*chain),
                            IOp::Inbound { origin, .. } => Some(*origin),
                            _ => None,
                        });
                        match recent {
                            Some(c) if rng.chance(1, 2) => c,
                            _ => rng.below(CHAINS.len() as u64) as u8,
                        }
                    },
                    set: rng.chance(3, 5),
                    auth: if fault { *rng.pick(&[AuthVar::Former, AuthVar::OtherRole, AuthVar::Counterparty, AuthVar::Stranger, AuthVar::Nobody, AuthVar::RightOtherArgs]) } else { AuthVar::Right },
                    abort,
                },
                1 => IOp::Deploy {
                    caller: rng.below(4) as u8,
                    salt: rng.below(3) as u8,
                    meta: gen_meta(rng, true),
                    supply: *rng.pick(&[-5i64, 0, 0, 7, 1000, 1000]),
                    minter: match rng.weighted(&[4, 4, 2, 1]) { 0 => MinterSpec::None, 1 => MinterSpec::User(rng.below(4) as u8), 2 => MinterSpec::Deployer, _ => MinterSpec::Service },
                    auth: if fault { user_fault(rng) } else if f_auth && rng.chance(1, 6) { AuthVar::Everyone } else { AuthVar::Right },
                    abort,
                },
                2 => IOp::Register { tok: if rng.chance(1, 10) { 100 + rng.below(3) as u8 } else if rng.chance(4, 5) { rng.below(4) as u8 } else { rng.below(8) as u8 }, abort },
                3 => IOp::Send {
                    caller: if rng.chance(1, 20) { 200 } else { rng.below(4) as u8 },
                    tok: if rng.chance(9, 10) { TokRef::Registered(rng.below(6) as u8) } else { TokRef::Unknown(rng.below(3) as u8) },
                    chain: dest_chain(rng, &cfg, &ops),
                    dst: rng.below(4) as u8,
                    amount: match rng.weighted(&[1, 1, 8, 2, 2, 1]) { 0 => IAmt::Zero, 1 => IAmt::Neg, 2 => IAmt::Lit(rng.range(1, 500) as i64), 3 => IAmt::Balance, 4 => IAmt::BalancePlus1, _ => IAmt::Wide(rng.below(6) as u8) },
                    data: if rng.chance(1, 3) { Some(rng.below(4) as u8) } else { None },
                    gas_tok: if rng.chance(3, 4) { rng.below(2) as u8 } else { rng.below(8) as u8 },
                    gas: *rng.pick(&[1i64, 1, 10, 100, 0, -1, 1_000_000]),
                    auth: if fault { user_fault(rng) } else if f_auth && rng.chance(1, 6) { AuthVar::Everyone } else { AuthVar::Right },
                    abort,
                },
                4 => {
                    let known: Vec<(u8, u8)> = ops.iter().filter_map(|o| if let IOp::Deploy { caller, salt, auth: AuthVar::Right, .. } = o { Some((*caller, *salt)) } else { None }).collect();
                    let (mut c, s) = if !known.is_empty() && rng.chance(3, 4) { *rng.pick(&known) } else { (rng.below(4) as u8, rng.below(3) as u8) };
                    if rng.chance(1, 5) {
                        c = (c + 1 + rng.below(3) as u8) % 4; // somebody else re-uses the salt
                    }
                    IOp::DeployRemote {
                    caller: c,
                    salt: s,
                    chain: dest_chain(rng, &cfg, &ops),
                    gas_tok: rng.below(2) as u8,
                    gas: *rng.pick(&[1i64, 1, 10, 0, -1, 1_000_000]),
                    auth: if fault { user_fault(rng) } else if f_auth && rng.chance(1, 6) { AuthVar::Everyone } else { AuthVar::Right },
                    abort,
                }},
                5 => IOp::DeployRemoteCanonical {
                    tok: {
                        let known: Vec<u8> = ops.iter().filter_map(|o| if let IOp::Register { tok, .. } = o { Some(*tok) } else { None }).filter(|t| *t < 100).collect();
                        if !known.is_empty() && rng.chance(3, 4) { *rng.pick(&known) } else { rng.below(8) as u8 }
                    },
                    chain: dest_chain(rng, &cfg, &ops),
                    spender: if rng.chance(1, 10) { *rng.pick(&[200u8, 200, 201]) } else { rng.below(4) as u8 },
                    gas_tok: rng.below(2) as u8,
                    gas: *rng.pick(&[1i64, 1, 10, 0, -1, 1_000_000]),
                    auth: if fault { user_fault(rng) } else if f_auth && rng.chance(1, 6) { AuthVar::Everyone } else { AuthVar::Right },
                    abort,
                },
                6 => {
                    let deploy_body = match focus {
                        "C11" => rng.chance(1, 2),
                        "C05" => rng.chance(1, 8),
                        _ => rng.chance(1, 4),
                    };
                    let body = if deploy_body {
                        InBody::Deploy {
                            id: match rng.weighted(&[11, 4, 3, 2]) { 0 => InId::Fresh(rng.below(6) as u8), 1 => InId::Taken(rng.below(4) as u8), 2 => InId::CanonicalOf(if rng.chance(1, 4) { 100 + rng.below(3) as u8 } else { rng.below(4) as u8 }), _ => InId::LocalOf { caller: rng.below(4) as u8, salt: rng.below(3) as u8 } },
                            meta: gen_meta(rng, true),
                            minter: match rng.weighted(&[5, 4, 1, 1]) { 0 => InMinter::None, 1 => InMinter::User(rng.below(4) as u8), 2 => InMinter::Garbage, _ => InMinter::NonAddress(rng.below(6) as u8) },
                        }
                    } else {
                        InBody::Transfer {
                            tok: if rng.chance(9, 10) { TokRef::Registered(rng.below(6) as u8) } else { TokRef::Unknown(rng.below(3) as u8) },
                            to: match rng.weighted(&[10, 4, 1, 1, 1]) { 0 => Recipient::User(rng.below(4) as u8), 1 => Recipient::App, 3 => Recipient::Service, 4 => Recipient::GasService, _ => Recipient::Garbage },
                            amount: match rng.weighted(&[1, 10, 3, 2, 1, 1, 1, 1, 2]) {
                                0 => InAmt::Zero,
                                1 => InAmt::Lit(rng.range(1, 300) as i64),
                                2 => InAmt::Custody,
                                3 => InAmt::CustodyPlus1,
                                4 => InAmt::I128Max,
                                5 => InAmt::TwoPow127,
                                6 => InAmt::TwoPow128,
                                7 => InAmt::TwoPow255,
                                _ => InAmt::HighBitPlus { bit: *rng.pick(&[127u8, 128, 129, 135, 160, 191, 192, 200, 254, 255]), low: rng.range(1, 300) as u16 },
                            },
                            data: if rng.chance(1, 3) { Some(rng.below(3) as u8) } else { None },
                            src: rng.below(24) as u8,
                        }
                    };
                    let want_dev = f_dev && rng.chance(if matches!(focus, "C04" | "C10") { 3 } else { 1 }, 5);
                    let mut body = body;
                    if let (true, InBody::Transfer { to, data, .. }) = (rng.chance(2, 3), &mut body) {
                        // transfers with data mostly go to the app
                        if data.is_some() {
                            *to = Recipient::App;
                        }
                    }
                    let wire_only = focus == "C10" && rng.chance(3, 4);
                    IOp::Inbound {
                        msg_id: rng.below(100) as u8,
                        origin: if !cfg.initial_trusted.is_empty() && rng.chance(3, 4) { *rng.pick(&cfg.initial_trusted) } else { rng.below(CHAINS.len() as u64) as u8 },
                        body,
                        dev: if want_dev { gen_dev(rng, wire_only) } else { Dev::None },
                        abort,
                    }
                }
                7 => IOp::MinterMint { tok: TokRef::Registered(rng.below(6) as u8), who: rng.below(4) as u8, to: rng.below(4) as u8, amount: *rng.pick(&[1i64, 50, 0, -1]) },
                8 => IOp::TransferOwnership {
                    to: rng.below(NP as u64) as u8,
                    auth: if fault || rng.chance(1, 4) { *rng.pick(&[AuthVar::Former, AuthVar::OtherRole, AuthVar::Counterparty, AuthVar::Stranger, AuthVar::Nobody, AuthVar::RightOtherArgs]) } else { AuthVar::Right },
                    abort,
                },
                _ => IOp::Resubmit { k: rng.below(64) as u16 },
            };
            ops.push(op);
            if rng.chance(1, if focus == "C18" { 8 } else { 40 }) {
                let valid = rng.chance(1, 2);
                ops.push(IOp::ProbeSetMeta { tok: 2 + rng.below(2) as u8, meta: gen_meta(rng, valid) });
            }
            if p.faults && rng.chance(1, if focus == "C18" { 12 } else { 60 }) {
                ops.push(IOp::ProbeSetFlaky { tok: 2 + rng.below(2) as u8, after: rng.range(1, 6) as u8 });
            }
            if p.faults && rng.chance(1, if focus == "C18" { 12 } else { 60 }) {
                ops.push(IOp::ProbeSetWeird { tok: 2 + rng.below(2) as u8, mode: rng.below(5) as u8 });
            }
            if rng.chance(1, 12) {
                ops.push(IOp::Advance { dseq: *rng.pick(&[1u32, 17, 100, 20_000, 1_100_000]) });
            }
        }
        (cfg, ops)
    }

    fn execute(cfg: &ICfg, ops: &[IOp], ctx: &mut Ctx) {
        let Some(mut ex) = IExec::new(cfg, ctx) else { return };
        if !ex.invariants(ctx) || !ex.check_balances(ctx, true) {
            return;
        }
        for (i, op) in ops.iter().enumerate() {
            if ctx.stopped() {
                break;
            }
            ctx.step = i;
            ex.sim.permissive_next = false;
            let eff = match op {
                IOp::Resubmit { k } => {
                    if ex.history.is_empty() {
                        ctx.end_step();
                        continue;
                    }
                    ctx.count("F1.resubmit");
                    ex.history[*k as usize % ex.history.len()].clone()
                }
                o => o.clone(),
            };
            ctx.trace_str(eff.kind());
            run_op(&mut ex, ctx, &eff);
            if i % 3 == 1 && !ctx.stopped() {
                let mut addrs = ex.h.clone();
                addrs.extend(ex.tok_addr.iter().cloned());
                let its = ex.its();
                crate::surface::probe_unlisted(ctx, &mut ex.sim, &its, "interchain-token-service", &addrs, &["C05", "C07", "C18", "C06", "C04"], &["C05", "C07", "C11", "C06", "C04"]);
            }
            if !matches!(op, IOp::Resubmit { .. } | IOp::Advance { .. } | IOp::ProbeSetMeta { .. } | IOp::ProbeSetFlaky { .. } | IOp::ProbeSetWeird { .. }) {
                ex.history.push(op.clone());
            }
            if !ctx.stopped() {
                let _ = ex.invariants(ctx) && ex.check_balances(ctx, i % 8 == 7);
            }
            ctx.trace_u64(ex.state_hash());
            ctx.trace_u64(ex.sim.digest().0);
            ctx.end_step();
        }
        if !ctx.stopped() {
            ctx.step = ops.len();
            ex.history_checks(ctx);
            if !ctx.stopped() {
                tail(&mut ex, ctx);
            }
            if !ctx.stopped() {
                let _ = ex.invariants(ctx) && ex.check_balances(ctx, true);
            }
            ctx.end_step();
        }
        for (k, v) in std::mem::take(&mut ex.sim.counters) {
            ctx.count_n(&k, v);
        }
    }

    fn simplify(op: &IOp) -> Vec<IOp> {
        let mut out = vec![];
        let mut o = op.clone();
        match &mut o {
            IOp::Trust { abort, .. } | IOp::Deploy { abort, .. } | IOp::Register { abort, .. } | IOp::Send { abort, .. } | IOp::DeployRemote { abort, .. } | IOp::DeployRemoteCanonical { abort, .. } | IOp::Inbound { abort, .. } | IOp::TransferOwnership { abort, .. } => {
                if abort.is_some() {
                    *abort = None;
                    out.push(o.clone());
                }
            }
            _ => {}
        }
        if let IOp::Inbound { msg_id, origin, body, dev, abort } = op {
            if *dev != Dev::None {
                out.push(IOp::Inbound { msg_id: *msg_id, origin: *origin, body: body.clone(), dev: Dev::None, abort: *abort });
            }
            if let InBody::Transfer { tok, to, amount, data: Some(_), src } = body {
                out.push(IOp::Inbound { msg_id: *msg_id, origin: *origin, body: InBody::Transfer { tok: tok.clone(), to: to.clone(), amount: amount.clone(), data: None, src: *src }, dev: dev.clone(), abort: *abort });
            }
        }
        out
    }
}

/// Quiescent tail: with faults off, one honest transfer in each direction
/// completes and the owner can still administer.
fn tail(ex: &mut IExec, ctx: &mut Ctx) {
    // make sure a destination chain is trusted
    if !ex.m.trusted.contains("ethereum") {
        ex.do_trust(ctx, 0, true, AuthVar::Right, None);
        if ctx.stopped() {
            return;
        }
        if !ctx.check(ex.m.trusted.contains("ethereum"), &["C06"], "liveness/owner-cannot-trust-a-chain", || "tail: the owner could not trust a chain".into()) {
            return;
        }
    }
    if ex.m.reg_order.is_empty() {
        return;
    }
    // pick a token some user holds
    for (n, id) in ex.m.reg_order.clone().iter().enumerate() {
        let (t, _) = ex.m.registry[id];
        for u in 0..4u8 {
            let hd = 2 + u as usize;
            if ex.toks[t].kind == TokKind::Probe && hd == BLOCKED_USER {
                continue; // this token refuses that receiver by design of the stub
            }
            // (balances close to the top of i128 would make the honest credit itself unrepresentable)
            let roomy = |x: i128| x < i128::MAX / 2;
            if ex.bal(t, hd) >= 1 && ex.bal(0, hd) >= 1 && t != 0 && roomy(ex.bal(t, hd)) && roomy(ex.bal(0, H_GAS)) && roomy(ex.bal(t, H_ITS)) {
                ctx.count("tail.outbound");
                let before = ex.bal(t, hd);
                ex.do_send(ctx, u, &TokRef::Registered(n as u8), 0, 1, &IAmt::Lit(1), None, 0, 1, AuthVar::Right, None);
                if ctx.stopped() {
                    return;
                }
                if !ctx.check(ex.bal(t, hd) == before - 1, &["C05"], "liveness/honest-outbound-transfer-failed", || "tail: an honest outbound transfer did not complete".into()) {
                    return;
                }
                // and back in
                ctx.count("tail.inbound");
                let before = ex.bal(t, hd);
                ex.do_inbound(ctx, 200, 0, &InBody::Transfer { tok: TokRef::Registered(n as u8), to: Recipient::User(u), amount: InAmt::Lit(1), data: None, src: 1 }, &Dev::None, None);
                if ctx.stopped() {
                    return;
                }
                let minter_revoked = ex.toks[t].kind == TokKind::Wasm && !ex.toks[t].minters.contains(&H_ITS);
                if !minter_revoked {
                    ctx.check(ex.bal(t, hd) == before + 1, &["C05", "C04"], "liveness/honest-inbound-transfer-failed", || "tail: an honest inbound transfer did not complete".into());
                }
                return;
            }
        }
    }
}

pub fn run_op(ex: &mut IExec, ctx: &mut Ctx, op: &IOp) {
    match op {
        IOp::Trust { chain, set, auth, abort } => ex.do_trust(ctx, *chain, *set, *auth, *abort),
        IOp::Deploy { caller, salt, meta, supply, minter, auth, abort } => ex.do_deploy(ctx, *caller, *salt, meta, *supply, minter, *auth, *abort),
        IOp::Register { tok, abort } => ex.do_register(ctx, *tok, *abort),
        IOp::Send { caller, tok, chain, dst, amount, data, gas_tok, gas, auth, abort } => ex.do_send(ctx, *caller, tok, *chain, *dst, amount, *data, *gas_tok, *gas, *auth, *abort),
        IOp::DeployRemote { caller, salt, chain, gas_tok, gas, auth, abort } => ex.do_deploy_remote(ctx, None, *caller, *salt, *chain, *gas_tok, *gas, *auth, *abort),
        IOp::DeployRemoteCanonical { tok, chain, spender, gas_tok, gas, auth, abort } => ex.do_deploy_remote(ctx, Some(*tok), *spender, 0, *chain, *gas_tok, *gas, *auth, *abort),
        IOp::Inbound { msg_id, origin, body, dev, abort } => ex.do_inbound(ctx, *msg_id, *origin, body, dev, *abort),
        IOp::MinterMint { tok, who, to, amount } => ex.do_minter_mint(ctx, tok, *who, *to, *amount),
        IOp::TransferOwnership { to, auth, abort } => ex.do_transfer_ownership(ctx, *to, *auth, *abort),
        IOp::Advance { dseq } => crate::common::advance_ledgers(&ex.sim, ctx, *dseq),
        IOp::ProbeSetMeta { tok, meta } => ex.do_probe_set_meta(ctx, *tok, meta),
        IOp::ProbeSetFlaky { tok, after } => ex.do_probe_set_flaky(ctx, *tok, *after),
        IOp::ProbeSetWeird { tok, mode } => ex.do_probe_set_weird(ctx, *tok, *mode),
        IOp::Resubmit { .. } => {}
    }
}
