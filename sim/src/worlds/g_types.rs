//! World G (gateway): configuration and symbolic operations.

use crate::common::{AuthVar, ClockMove, PayloadSpec, StrSpec};
use crate::oracle::{hex32, MSet};
use serde::{Deserialize, Serialize};

#[derive(Serialize, Deserialize, Clone, Debug)]
pub struct GwCfg {
    #[serde(with = "hex32")]
    pub domain: [u8; 32],
    pub min_delay: u64,
    pub retention: u64,
    /// indices into `GCfg::pool`
    pub initial: Vec<usize>,
    /// deploy with the owner also being the operator (role aliasing at construction)
    #[serde(default)]
    pub operator_is_owner: bool,
}

#[derive(Serialize, Deserialize, Clone, Debug)]
pub struct GCfg {
    pub start_ts: u64,
    pub gateways: Vec<GwCfg>,
    /// well-formed signer sets over the simulator's key pool
    pub pool: Vec<MSet>,
    pub payloads: Vec<PayloadSpec>,
    /// run the honest drain script after the schedule (bounded liveness)
    pub tail: bool,
}

/// (source chain, message id) pairs; ("ab","c") / ("a","bc") split the same
/// characters differently between chain and id; the first two share the id on
/// different chains.
pub const IDS: [(&str, &str); 29] = [
    ("avalanche", "0xaa-0"),
    ("ethereum", "0xaa-0"),
    ("ethereum", "0xaa-1"),
    ("avalanche", "0xbb-7"),
    ("ab", "c"),
    ("a", "bc"),
    ("", "x"),
    // two long ids (over 150 bytes, beyond any 32-, 64- or 128-byte prefix or key-size threshold) that differ
    // only in their last character
    ("ethereum", "0xaaaaaaaaaaaaaaaaaaaaaaaaaaaaaaaaaaaaaaaaaaaaaaaaaaaaaaaaaaaaaaaaaaaaaaaaaaaaaaaaaaaaaaaaaaaaaaaaaaaaaaaaaaaaaaaaaaaaaaaaaaaaaaaaaaaaaaaaaaaaaaaaaaaaaa-1"),
    ("ethereum", "0xaaaaaaaaaaaaaaaaaaaaaaaaaaaaaaaaaaaaaaaaaaaaaaaaaaaaaaaaaaaaaaaaaaaaaaaaaaaaaaaaaaaaaaaaaaaaaaaaaaaaaaaaaaaaaaaaaaaaaaaaaaaaaaaaaaaaaaaaaaaaaaaaaaaaaa-2"),
    // pairs whose (chain, id) differ only in where the boundary falls around a separator character:
    // any key built as chain + sep + id collides.  Each mate directly follows its partner, so the
    // "next id" deviation turns an approved message into its mate.
    ("avalanche", "fuji_0xabc-1"),
    ("avalanche_fuji", "0xabc-1"),
    ("a-b", "c"),
    ("a", "b-c"),
    ("x:y", "z"),
    ("x", "y:z"),
    ("p/q", "r"),
    ("p", "q/r"),
    ("m n", "o"),
    ("m", "n o"),
    ("u|v", "w"),
    ("u", "v|w"),
    ("s.t", "k"),
    ("s", "t.k"),
    ("h\0i", "j"),
    ("h", "i\0j"),
    // pairs a normalising comparison (case, surrounding blanks) would identify
    ("polygon", "0xAbC-1"),
    ("Polygon", "0xabc-1"),
    ("fantom", "7"),
    ("fantom ", " 7"),
];
pub const SRCS: [&str; 5] = [
    "0x4EFE356BEDeCC817cb89B4E9b796dB8bC188DC59",
    // the same address followed by a NUL (identical once a serialisation pads strings to four bytes) and
    // the same address in lower case directly after it: the "next source" deviation hits them
    "0x4EFE356BEDeCC817cb89B4E9b796dB8bC188DC59\0",
    "0x4efe356bedecc817cb89b4e9b796db8bc188dc59",
    "0xSender2",
    "",
];

#[derive(Serialize, Deserialize, Clone, Debug, PartialEq, Eq, Hash)]
pub struct MsgSpec {
    pub id: u8,
    pub src: u8,
    /// index into the destination table (apps and accounts)
    pub dest: u8,
    pub payload: u8,
}

#[derive(Serialize, Deserialize, Clone, Debug, PartialEq, Eq, Hash)]
pub enum Tamper {
    None,
    Weight { i: u8, delta: i8 },
    Threshold { delta: i8 },
    Nonce,
    Drop { i: u8 },
    Add { key: u8 },
    Dup { i: u8 },
    /// n extra copies of signer i (each carries the signature when i signs)
    DupMany { i: u8, n: u8 },
    /// an extra copy of signer i in front, declaring an inflated weight
    DupInflated { i: u8 },
    Swap { i: u8, j: u8 },
    /// declare pool set `j`, sign with the keys of the base set
    AsOtherSet { j: u8 },
}

#[derive(Serialize, Deserialize, Clone, Debug, PartialEq, Eq, Hash)]
pub enum SigFault {
    None,
    /// position i signs a different digest
    OtherDigest { i: u8 },
    /// position i is signed by another key
    OtherKey { i: u8, key: u8 },
    BitFlip { i: u8, bit: u16 },
    Garbage { i: u8 },
}

/// What the signers actually signed (F4 misdelivery): anything but all-zero is
/// a proof made for something else.
#[derive(Serialize, Deserialize, Clone, Debug, PartialEq, Eq, Hash, Default)]
pub struct DigestVar {
    /// 0 own domain separator, 1 the other gateway's, 2 random
    pub domain: u8,
    /// 0 this data, 1 same body under the other command tag, 2 random,
    /// 3 same command, altered batch / candidate
    pub data: u8,
    /// 0 hash of the declared set, 1 hash of the base set, 2 another pool set
    pub set_hash: u8,
}

impl DigestVar {
    pub fn honest(&self) -> bool {
        self.domain == 0 && self.data == 0 && self.set_hash == 0
    }
}

#[derive(Serialize, Deserialize, Clone, Debug, PartialEq, Eq, Hash)]
pub struct ProofSpec {
    /// pool index of the base set (whose keys sign)
    pub set: u8,
    /// bit i set = declared position i carries a signature
    pub mask: u64,
    pub tamper: Tamper,
    pub sig_fault: SigFault,
    pub digest: DigestVar,
}

#[derive(Serialize, Deserialize, Clone, Debug, PartialEq, Eq, Hash)]
pub enum Cand {
    Pool(u8),
    Inline(MSet),
}

#[derive(Serialize, Deserialize, Clone, Debug, PartialEq, Eq, Hash)]
pub enum DataSpec {
    Random(u32),
    ApproveOf(Vec<MsgSpec>),
    RotationOf(Cand),
}

#[derive(Serialize, Deserialize, Clone, Debug, PartialEq, Eq, Hash)]
pub enum GOp {
    Approve {
        gw: u8,
        proof: ProofSpec,
        msgs: Vec<MsgSpec>,
        abort: Option<u16>,
    },
    ValidateProof {
        gw: u8,
        proof: ProofSpec,
        data: DataSpec,
    },
    /// direct `validate_message` by an account (or in the name of an app)
    Consume {
        gw: u8,
        caller: u8,
        msg: MsgSpec,
        auth: AuthVar,
        abort: Option<u16>,
    },
    /// `execute` on a destination application
    Deliver {
        gw: u8,
        /// 0 = shipped example, 1 = minimal app, 2 / 3 = the same two apps deployed with a
        /// gateway address behind which there is no gateway (they must refuse everything)
        app: u8,
        msg: MsgSpec,
        abort: Option<u16>,
    },
    Query {
        gw: u8,
        msg: MsgSpec,
    },
    Rotate {
        gw: u8,
        cand: Cand,
        proof: ProofSpec,
        bypass: bool,
        auth: AuthVar,
        abort: Option<u16>,
    },
    /// proofs from every installed set, through the read-only check and
    /// optionally through an approval of a throw-away id
    RetentionSweep {
        gw: u8,
        via_approve: bool,
    },
    Construct {
        sets: Vec<Cand>,
        retention: u64,
        delay: u64,
    },
    Advance {
        dt: ClockMove,
        dseq: u32,
    },
    TransferRole {
        gw: u8,
        owner_role: bool,
        to: u8,
        auth: AuthVar,
        abort: Option<u16>,
    },
    CallContract {
        gw: u8,
        sender: u8,
        chain: StrSpec,
        addr: StrSpec,
        payload: PayloadSpec,
        auth: AuthVar,
        abort: Option<u16>,
    },
    ExampleSend {
        gw: u8,
        user: u8,
        chain: StrSpec,
        addr: StrSpec,
        payload: PayloadSpec,
        gas: i64,
        auth: AuthVar,
        abort: Option<u16>,
    },
    /// re-submit the k-th earlier operation verbatim (F1 / F2)
    Resubmit {
        k: u16,
    },
}

impl GOp {
    pub fn kind(&self) -> &'static str {
        match self {
            GOp::Approve { .. } => "approve",
            GOp::ValidateProof { .. } => "validate_proof",
            GOp::Consume { .. } => "consume",
            GOp::Deliver { .. } => "deliver",
            GOp::Query { .. } => "query",
            GOp::Rotate { .. } => "rotate",
            GOp::RetentionSweep { .. } => "retention_sweep",
            GOp::Construct { .. } => "construct",
            GOp::Advance { .. } => "advance",
            GOp::TransferRole { .. } => "transfer_role",
            GOp::CallContract { .. } => "call_contract",
            GOp::ExampleSend { .. } => "example_send",
            GOp::Resubmit { .. } => "resubmit",
        }
    }
}
