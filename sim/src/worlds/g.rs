//! World G: generator and `World` implementation.

use super::g_exec::*;
use super::g_types::*;
use crate::common::{opt_abort, AuthVar, ClockMove, PayloadSpec, StrSpec};
use crate::engine::{Ctx, GenParams, World};
use crate::oracle::*;
use crate::rng::Rng;
use serde_json::{json, Value};
use std::collections::BTreeMap;

pub struct WorldG;

fn gen_set(rng: &mut Rng, keys: &KeyPool, sorted: &[u8]) -> MSet {
    let n = match rng.weighted(&[6, 6, 8, 6, 4, 2, 2, 1]) {
        0 => 1,
        1 => 2,
        2 => 3,
        3 => rng.range(4, 5) as usize,
        4 => rng.range(6, 7) as usize,
        5 => 8,
        6 => rng.range(9, 12) as usize,
        // beyond any plausible fixed cap on the number of proof entries (32 in particular)
        _ => rng.range(31, N_KEYS as u64) as usize,
    };
    // choose n distinct keys, keep public-key order
    let mut chosen: Vec<u8> = sorted.to_vec();
    while chosen.len() > n {
        let i = rng.usize(chosen.len());
        chosen.remove(i);
    }
    let regime = rng.weighted(&[5, 3, 2, 2, 2]);
    // width boundaries inside u128: weights that are small multiples of 2^32 / 2^64 / 2^96, so that any
    // narrowing of a weight, a sum or the threshold to a machine word loses everything
    let unit: u128 = 1u128 << *rng.pick(&[32u32, 64, 64, 96]);
    let mut signers = vec![];
    for (i, k) in chosen.iter().enumerate() {
        let weight: u128 = match regime {
            0 => rng.range(1, 9) as u128,
            1 => rng.range(1, 3) as u128,
            2 => {
                // near u128::MAX, total still representable
                (u128::MAX / n as u128) - rng.below(3) as u128
            }
            3 => {
                if i == 0 {
                    1_000_000
                } else {
                    1
                }
            }
            _ => unit * rng.range(1, 3) as u128 + if rng.chance(1, 4) { 1 } else { 0 },
        };
        signers.push(MSigner {
            key: keys.pubs[*k as usize],
            weight,
            key_id: Some(*k),
        });
    }
    let total: u128 = signers.iter().map(|s| s.weight).sum();
    let threshold = match rng.weighted(&[3, 3, 2, 2]) {
        0 => total,
        1 => (total / 2).max(1),
        2 => 1,
        _ => total - (total / 3).min(total - 1),
    };
    MSet {
        signers,
        threshold,
        nonce: rng.bytes32(),
    }
}

fn subset_weight(set: &MSet, mask: u64) -> u128 {
    let mut t: u128 = 0;
    for (i, s) in set.signers.iter().enumerate() {
        if (mask >> i) & 1 == 1 {
            t = t.saturating_add(s.weight);
        }
    }
    t
}

/// 0 all, 1 minimal prefix, 2 exact-threshold subset, 3 suffix, 4 just
/// insufficient, 5 nobody, 6 random subset
fn choose_mask(rng: &mut Rng, set: &MSet, strategy: usize) -> u64 {
    let n = set.signers.len();
    match strategy {
        0 => u64::MAX,
        1 => {
            let mut m = 0u64;
            for i in 0..n {
                m |= 1 << i;
                if subset_weight(set, m) >= set.threshold {
                    break;
                }
            }
            m
        }
        2 => {
            for _ in 0..24 {
                let m = rng.next_u64() & ((1u64 << n) - 1).max(1);
                if subset_weight(set, m) == set.threshold {
                    return m;
                }
            }
            choose_mask(rng, set, 1)
        }
        3 => {
            let mut m = 0u64;
            for i in (0..n).rev() {
                m |= 1 << i;
                if subset_weight(set, m) >= set.threshold {
                    break;
                }
            }
            m
        }
        4 => {
            let mut m = 0u64;
            for i in 0..n {
                if subset_weight(set, m | (1 << i)) >= set.threshold {
                    break;
                }
                m |= 1 << i;
            }
            m
        }
        5 => 0,
        _ => rng.next_u64() & ((1u64 << n) - 1),
    }
}

struct Toggles {
    dup: bool,
    proof: bool,
    misdeliver: bool,
    auth: bool,
    abort: bool,
    clock: bool,
}

struct Guess {
    latest: Vec<usize>,
    installed: Vec<Vec<usize>>,
    approved: Vec<BTreeMap<u8, MsgSpec>>,
    next_fresh: usize,
}

fn honest_proof(rng: &mut Rng, pool: &[MSet], set: usize, allow_subsets: bool) -> ProofSpec {
    let strat = if allow_subsets {
        [0usize, 1, 2, 3, 6][rng.usize(5)]
    } else {
        0
    };
    let mut mask = choose_mask(rng, &pool[set], strat);
    if subset_weight(&pool[set], mask) < pool[set].threshold {
        mask = u64::MAX;
    }
    ProofSpec {
        set: set as u8,
        mask,
        tamper: Tamper::None,
        sig_fault: SigFault::None,
        digest: DigestVar::default(),
    }
}

fn faulty_proof(rng: &mut Rng, pool: &[MSet], set: usize, t: &Toggles) -> ProofSpec {
    let mut p = honest_proof(rng, pool, set, true);
    let n = pool[set].signers.len() as u8;
    match rng.weighted(&[
        if t.proof { 6 } else { 0 },
        if t.proof { 6 } else { 0 },
        if t.misdeliver { 6 } else { 0 },
        3,
    ]) {
        0 => {
            p.tamper = match rng.below(11) {
                0 => Tamper::Weight { i: rng.below(8) as u8, delta: if rng.chance(1, 2) { 1 } else { -1 } },
                1 => Tamper::Threshold { delta: if rng.chance(1, 2) { 0 } else { -1 } },
                2 => Tamper::Nonce,
                3 => Tamper::Drop { i: rng.below(8) as u8 },
                4 => Tamper::Add { key: rng.below(N_KEYS as u64) as u8 },
                5 => Tamper::Dup { i: rng.below(8) as u8 },
                9 => Tamper::DupMany { i: rng.below(8) as u8, n: rng.below(6) as u8 },
                10 => Tamper::DupInflated { i: rng.below(8) as u8 },
                6 => Tamper::Swap { i: rng.below(8) as u8, j: rng.below(8) as u8 },
                _ => Tamper::AsOtherSet { j: rng.below(pool.len() as u64) as u8 },
            };
            if matches!(p.tamper, Tamper::Dup { .. } | Tamper::DupMany { .. } | Tamper::DupInflated { .. }) {
                p.mask = u64::MAX;
            }
            // the realistic tampering: the signers signed honestly for the registered set
            // and somebody altered the declaration afterwards (so the signatures are over
            // the digest that binds the *registered* set's hash)
            if rng.chance(2, 3) {
                p.digest.set_hash = 1;
            }
        }
        1 => {
            // make sure the faulty position is one that signs and is needed
            let i = rng.below(n.max(1) as u64) as u8;
            p.mask |= 1 << i;
            if rng.chance(1, 2) {
                // keep it inside the prefix that decides
                p.mask = choose_mask(rng, &pool[set], 1) | (1 << i);
            }
            p.sig_fault = match rng.below(4) {
                0 => SigFault::OtherDigest { i },
                1 => SigFault::OtherKey { i, key: rng.below(N_KEYS as u64) as u8 },
                2 => SigFault::BitFlip { i, bit: rng.below(512) as u16 },
                _ => SigFault::Garbage { i },
            };
        }
        2 => {
            p.digest = match rng.below(5) {
                0 => DigestVar { domain: 1, data: 0, set_hash: 0 },
                1 => DigestVar { domain: 2, data: 0, set_hash: 0 },
                2 => DigestVar { domain: 0, data: 1, set_hash: 0 },
                3 => DigestVar { domain: 0, data: rng.range(2, 3) as u8, set_hash: 0 },
                _ => DigestVar { domain: 0, data: 0, set_hash: 2 },
            };
        }
        _ => {
            let st = [4usize, 5, 6][rng.usize(3)];
            p.mask = choose_mask(rng, &pool[set], st);
        }
    }
    p
}

fn gen_msg(rng: &mut Rng, ndest: u8, npay: u8) -> MsgSpec {
    MsgSpec {
        id: rng.below(IDS.len() as u64) as u8,
        src: rng.below(SRCS.len() as u64) as u8,
        // one message in thirty names the ACCOUNT twin of an application's contract address as destination
        dest: if rng.chance(1, 30) { 100 + rng.below(2) as u8 } else { rng.below(ndest as u64) as u8 },
        payload: rng.below(npay as u64) as u8,
    }
}

fn malformed_candidate(rng: &mut Rng, keys: &KeyPool, sorted: &[u8], base: &MSet) -> MSet {
    let mut s = base.clone();
    s.nonce = rng.bytes32();
    if rng.chance(1, 6) {
        // a long candidate (lengths around the powers of two up to 300) whose only defect, if any,
        // sits in its last entries: the members beyond the usual sizes are checked like the first
        let n = [41usize, 64, 65, 100, 127, 128, 129, 130, 200, 255, 256, 257, 300][rng.usize(13)];
        while s.signers.len() < n {
            let mut key = rng.bytes32();
            key[0] = (s.signers.len() * 255 / n) as u8;
            s.signers.push(MSigner { key, weight: 1 + rng.below(5) as u128, key_id: None });
        }
        s.signers.sort_by(|a, b| a.key.cmp(&b.key));
        s.signers.dedup_by(|a, b| a.key == b.key);
        if rng.chance(1, 2) {
            s.threshold = 1 + rng.below(3) as u128;
        }
        let l = s.signers.len();
        match rng.below(6) {
            0 => s.signers[l - 1].weight = 0,
            1 => s.signers[l - 1].key = s.signers[l - 2].key,
            2 => s.signers.swap(l - 1, l - 2),
            3 => {
                s.signers[l - 1].weight = u128::MAX;
                s.signers[l - 2].weight = u128::MAX;
            }
            4 => {
                // the threshold is met only by counting every member, and exceeds that by one
                if let Some(t) = s.total_weight() {
                    s.threshold = t.saturating_add(1);
                }
            }
            _ => {}
        }
        return s;
    }
    match rng.below(13) {
        0 => s.signers.clear(),
        1 => {
            // adjacent equal keys
            if let Some(x) = s.signers.first().cloned() {
                s.signers.insert(0, x);
            }
        }
        2 => s.signers.reverse(),
        3 => {
            if s.signers.len() > 1 {
                s.signers.reverse();
            } else {
                s.threshold = 0;
            }
        }
        4 => {
            // all-zero first key, otherwise fine
            s.signers.insert(0, MSigner { key: [0u8; 32], weight: 1, key_id: None });
        }
        5 => {
            let i = rng.usize(s.signers.len().max(1));
            if let Some(x) = s.signers.get_mut(i) {
                x.weight = 0;
            }
        }
        6 => {
            // weights summing past u128
            let a = sorted[0];
            let b = sorted[1];
            s.signers = vec![
                MSigner { key: keys.pubs[a as usize], weight: u128::MAX, key_id: Some(a) },
                MSigner { key: keys.pubs[b as usize], weight: 1 + rng.below(3) as u128, key_id: Some(b) },
            ];
            s.threshold = 1;
        }
        11 | 12 => {
            // weights whose sum passes u128 without any single dominant term: three to five
            // signers of about 2^127 (or MAX/(k-1) + 1) each, threshold small enough for a wrapped total
            let k = 3 + rng.usize(3).min(sorted.len().saturating_sub(3));
            let each: u128 = if rng.chance(1, 2) { 1u128 << 127 } else { u128::MAX / (k as u128 - 1) + 1 };
            s.signers = sorted
                .iter()
                .take(k)
                .enumerate()
                .map(|(i, a)| MSigner { key: keys.pubs[*a as usize], weight: each + if i % 2 == 1 { rng.below(12) as u128 } else { 0 }, key_id: Some(*a) })
                .collect();
            s.threshold = 1 + rng.below(9) as u128;
        }
        7 => s.threshold = 0,
        8 => {
            // threshold = total + 1
            if let Some(t) = s.total_weight() {
                s.threshold = t.saturating_add(1);
            }
        }
        9 => {
            // threshold = total (well-formed boundary)
            if let Some(t) = s.total_weight() {
                s.threshold = t;
            }
        }
        _ => {
            // weights summing to exactly u128::MAX (well-formed boundary)
            let a = sorted[0];
            let b = sorted[1];
            s.signers = vec![
                MSigner { key: keys.pubs[a as usize], weight: u128::MAX - 5, key_id: Some(a) },
                MSigner { key: keys.pubs[b as usize], weight: 5, key_id: Some(b) },
            ];
            s.threshold = u128::MAX;
        }
    }
    s
}

impl World for WorldG {
    const NAME: &'static str = "G";
    type Cfg = GCfg;
    type Op = GOp;

    fn components() -> Value {
        json!({
            "real": ["axelar-gateway (native, /repo)", "example (native, /repo)", "axelar-gas-service (native, /repo)", "axelar-soroban-std + derive (native, /repo)", "soroban-env-host 22.1 (auth, storage, rollback, budget, events)", "Stellar Asset Contract (host built-in)"],
            "stub": ["verifier sets: ed25519 keys + signing in the harness", "relayer / hub: the schedule", "MiniApp (harness contract using the executable interface's default validate_message)", "principals: generated addresses with mock account contracts"]
        })
    }

    fn generate(rng: &mut Rng, p: GenParams) -> (GCfg, Vec<GOp>) {
        let keys = KeyPool::new(N_KEYS);
        let sorted = keys.sorted_ids();
        let focus = p.focus;
        let t = Toggles {
            dup: p.faults && rng.chance(3, 4),
            proof: p.faults && rng.chance(3, 4),
            misdeliver: p.faults && rng.chance(3, 4),
            auth: p.faults && rng.chance(3, 4),
            abort: p.faults && rng.chance(1, 2),
            clock: p.faults && rng.chance(3, 4),
        };
        // ---- pool
        let mut pool: Vec<MSet> = (0..6).map(|_| gen_set(rng, &keys, &sorted)).collect();
        let mut c = pool[0].clone();
        if c.threshold > 1 {
            c.threshold -= 1;
        } else {
            c.nonce[0] ^= 1;
        }
        pool.push(c);
        let mut d = pool[0].clone();
        if d.signers.len() > 1 {
            d.signers.pop();
            let tot: u128 = d.signers.iter().map(|s| s.weight).sum();
            d.threshold = d.threshold.min(tot);
        } else {
            d.nonce[1] ^= 1;
        }
        pool.push(d);
        let mut e = pool[1].clone();
        e.nonce = rng.bytes32();
        pool.push(e);
        pool.push(gen_set(rng, &keys, &sorted));
        // long histories: one run in eight (for the properties about retention) gets eighteen more sets —
        // nonce variants of the first one — and starts with a burst of rotations through all of them, so that
        // sets lie 16, 17, ... rotations back (any fixed cap on the window shows)
        let long_history = matches!(focus, "C08" | "C01" | "C03") && rng.chance(1, 8);
        let base_pool = pool.len();
        if long_history {
            for k in 0..18u8 {
                let mut s = pool[0].clone();
                s.nonce = keccak(&[b"long-history".as_ref(), &[k]].concat());
                pool.push(s);
            }
        }
        // ---- gateways
        let two = rng.chance(if focus == "C01" { 1 } else { 1 }, if focus == "C01" { 2 } else { 4 });
        let ngw = if two { 2 } else { 1 };
        let mut gateways = vec![];
        let delays: &[u64] = &[0, 1, 10, 3600, 1 << 40, u64::MAX];
        let rets: &[u64] = &[0, 1, 2, 3, 10, 1 << 40, u64::MAX - 2, u64::MAX];
        let mut guess = Guess { latest: vec![], installed: vec![], approved: vec![], next_fresh: 0 };
        let shared_first = rng.chance(3, 5);
        for g in 0..ngw {
            let ninit = rng.range(1, 3) as usize;
            let mut initial: Vec<usize> = vec![];
            if g == 1 && shared_first {
                initial.push(gateways_first_initial(&gateways));
            }
            while initial.len() < ninit {
                let i = rng.usize(base_pool);
                if !initial.contains(&i) && pool.iter().take(i).all(|s| s.hash() != pool[i].hash()) {
                    initial.push(i);
                }
            }
            let min_delay = match focus {
                // the bypass role (C06) means something only where there is a delay to bypass
                "C09" | "C06" => *rng.pick(delays),
                "C08" | "C03" => *rng.pick(&[0u64, 0, 1, 10]),
                _ => *rng.pick(&[0u64, 0, 0, 1, 3600]),
            };
            let retention = if long_history && g == 0 {
                *rng.pick(&[16u64, 17, 20, 1 << 40, u64::MAX])
            } else {
                match focus {
                    "C08" => *rng.pick(rets),
                    _ => *rng.pick(&[0u64, 1, 1, 2, 10, u64::MAX]),
                }
            };
            guess.latest.push(*initial.last().unwrap());
            guess.installed.push(initial.clone());
            guess.approved.push(BTreeMap::new());
            gateways.push(GwCfg { domain: rng.bytes32(), min_delay, retention, initial, operator_is_owner: rng.chance(1, 5) });
        }
        let npay = rng.range(2, 4) as u8;
        let payloads: Vec<PayloadSpec> = (0..npay).map(|_| PayloadSpec::gen(rng, false)).collect();
        let cfg = GCfg {
            start_ts: if rng.chance(1, 3) { 0 } else { rng.below(2_000_000_000) },
            gateways,
            pool: pool.clone(),
            payloads,
            tail: true,
        };
        let ndest: u8 = if ngw > 1 { 6 } else { 4 };
        // ---- operation mix
        // approve, validate_proof, consume, deliver, query, rotate, sweep, construct, advance, role, call_contract, example_send, resubmit
        let w: [u32; 13] = match focus {
            "C01" => [40, 14, 5, 2, 4, 10, 2, 2, 5, 1, 0, 0, 10],
            "C02" => [30, 1, 24, 8, 12, 3, 0, 0, 2, 0, 0, 0, 12],
            "C03" => [6, 2, 2, 0, 2, 45, 2, 8, 12, 5, 0, 0, 8],
            "C08" => [8, 6, 2, 0, 1, 34, 30, 3, 12, 2, 0, 0, 10],
            "C09" => [3, 1, 1, 0, 1, 42, 1, 0, 34, 8, 0, 0, 6],
            "C13" => [4, 0, 2, 1, 2, 3, 0, 0, 2, 2, 45, 25, 6],
            "C16" => [30, 0, 8, 38, 5, 2, 0, 0, 1, 0, 0, 0, 12],
            "C06" => [4, 1, 2, 1, 1, 25, 0, 0, 8, 40, 2, 2, 8],
            "C07" => [20, 0, 30, 4, 3, 3, 0, 0, 2, 2, 15, 15, 6],
            _ => [15, 5, 10, 6, 5, 12, 3, 2, 8, 4, 6, 4, 8],
        };
        let mut w = w;
        if !t.dup {
            w[12] = 0;
        }
        let nops = rng.range(20, if p.thorough { 80 } else { 60 }) as usize;
        let mut ops: Vec<GOp> = vec![];
        if long_history {
            for i in base_pool..pool.len() {
                let by = guess.latest[0];
                ops.push(GOp::Rotate { gw: 0, cand: Cand::Pool(i as u8), proof: honest_proof(rng, &pool, by, false), bypass: true, auth: AuthVar::Right, abort: None });
                guess.latest[0] = i;
                guess.installed[0].push(i);
            }
            ops.push(GOp::RetentionSweep { gw: 0, via_approve: rng.chance(1, 2) });
        }
        for _ in 0..nops {
            let g = rng.usize(ngw);
            let fault = p.faults && rng.chance(2, 5);
            let op = match rng.weighted(&w) {
                0 => {
                    // approve
                    let set = if fault && rng.chance(1, 4) {
                        rng.usize(pool.len())
                    } else if rng.chance(1, 5) && guess.installed[g].len() > 1 {
                        *rng.pick(&guess.installed[g])
                    } else {
                        guess.latest[g]
                    };
                    let nm = match rng.weighted(&[1, 8, 4, 2, 1]) {
                        0 => 0,
                        1 => 1,
                        2 => 2,
                        3 => 3,
                        _ => 5,
                    };
                    let mut msgs: Vec<MsgSpec> = (0..nm).map(|_| gen_msg(rng, ndest, npay)).collect();
                    if nm >= 2 && rng.chance(1, 3) {
                        // in-batch duplicate id, possibly with other content
                        let mut d = msgs[0].clone();
                        if rng.chance(1, 2) {
                            d.payload = (d.payload + 1) % npay;
                        }
                        msgs[1] = d;
                    }
                    if focus == "C16" || focus == "C02" || focus == "C07" {
                        // make deliverable / consumable messages likely
                        for m in msgs.iter_mut() {
                            if focus == "C16" {
                                m.dest = if rng.chance(4, 5) { (rng.below(2) + if g == 1 { 4 } else { 0 }) as u8 } else { m.dest };
                            } else if rng.chance(3, 5) {
                                m.dest = 2 + rng.below(2) as u8;
                            }
                        }
                    }
                    let proof = if fault && (t.proof || t.misdeliver) {
                        faulty_proof(rng, &pool, set, &t)
                    } else {
                        honest_proof(rng, &pool, set, true)
                    };
                    if proof.tamper == Tamper::None && proof.sig_fault == SigFault::None && proof.digest.honest() {
                        for m in &msgs {
                            guess.approved[g].entry(m.id).or_insert_with(|| m.clone());
                        }
                    }
                    GOp::Approve { gw: g as u8, proof, msgs, abort: opt_abort(rng, t.abort, 150) }
                }
                1 => {
                    let set = if rng.chance(1, 2) { guess.latest[g] } else { rng.usize(pool.len()) };
                    let proof = if fault { faulty_proof(rng, &pool, set, &t) } else { honest_proof(rng, &pool, set, true) };
                    let data = match rng.below(3) {
                        0 => DataSpec::Random(rng.below(1 << 30) as u32),
                        1 => DataSpec::ApproveOf(vec![gen_msg(rng, ndest, npay)]),
                        _ => DataSpec::RotationOf(Cand::Pool(rng.below(pool.len() as u64) as u8)),
                    };
                    GOp::ValidateProof { gw: g as u8, proof, data }
                }
                2 => {
                    // consume
                    let known: Vec<MsgSpec> = guess.approved[g].values().cloned().collect();
                    let mut msg = if !known.is_empty() && rng.chance(4, 5) { rng.pick(&known).clone() } else { gen_msg(rng, ndest, npay) };
                    let mut caller = msg.dest;
                    if fault {
                        match rng.below(6) {
                            5 => msg.payload = 250,
                            0 => msg.src = (msg.src + 1) % SRCS.len() as u8,
                            1 => msg.payload = (msg.payload + 1) % npay,
                            2 => msg.id = (msg.id + 1) % IDS.len() as u8,
                            3 => caller = 2 + ((caller + 1) % 2),
                            _ => {}
                        }
                    }
                    let auth = if fault && t.auth && rng.chance(1, 2) {
                        *rng.pick(&[AuthVar::Stranger, AuthVar::Nobody, AuthVar::Counterparty, AuthVar::Owner, AuthVar::RightOtherArgs])
                    } else {
                        if t.auth && rng.chance(1, 6) { AuthVar::Everyone } else { AuthVar::Right }
                    };
                    if rng.chance(1, 25) {
                        caller = 200;
                    }
                    GOp::Consume { gw: g as u8, caller, msg, auth, abort: opt_abort(rng, t.abort, 150) }
                }
                3 => {
                    let known: Vec<MsgSpec> = guess.approved[g].values().cloned().collect();
                    let mut msg = if !known.is_empty() && rng.chance(4, 5) { rng.pick(&known).clone() } else { gen_msg(rng, ndest, npay) };
                    let mut app = if msg.dest % 2 == 0 { 0 } else { 1 };
                    if rng.chance(1, 6) {
                        app = rng.below(2) as u8;
                    }
                    if rng.chance(1, 12) {
                        app += 2; // a misconfigured twin
                    }
                    if fault {
                        match rng.below(6) {
                            5 => msg.payload = 250,
                            0 => msg.src = (msg.src + 1) % SRCS.len() as u8,
                            1 => msg.payload = (msg.payload + 1) % npay,
                            2 => msg.id = (msg.id + 1) % IDS.len() as u8,
                            3 => app ^= 1,
                            _ => {}
                        }
                    }
                    GOp::Deliver { gw: g as u8, app, msg, abort: opt_abort(rng, t.abort, 150) }
                }
                4 => {
                    let known: Vec<MsgSpec> = guess.approved[g].values().cloned().collect();
                    let mut msg = if !known.is_empty() && rng.chance(2, 3) { rng.pick(&known).clone() } else { gen_msg(rng, ndest, npay) };
                    if rng.chance(1, 3) {
                        msg.payload = (msg.payload + 1) % npay;
                    }
                    GOp::Query { gw: g as u8, msg }
                }
                5 => {
                    // rotate
                    let bypass = rng.chance(if focus == "C09" || focus == "C06" { 2 } else { 1 }, 5);
                    let by = if fault && rng.chance(1, 2) {
                        if guess.installed[g].len() > 1 && rng.chance(3, 4) { *rng.pick(&guess.installed[g]) } else { rng.usize(pool.len()) }
                    } else {
                        guess.latest[g]
                    };
                    let (cand, cand_pool): (Cand, Option<usize>) = if (focus == "C03" && rng.chance(2, 5)) || (fault && rng.chance(1, 5)) {
                        let base = pool[rng.usize(pool.len())].clone();
                        (Cand::Inline(malformed_candidate(rng, &keys, &sorted, &base)), None)
                    } else if fault && rng.chance(1, 4) {
                        // a previously installed set
                        let i = *rng.pick(&guess.installed[g]);
                        (Cand::Pool(i as u8), None)
                    } else {
                        // a fresh pool set not yet installed on this gateway
                        let free: Vec<usize> = (0..pool.len()).filter(|i| !guess.installed[g].contains(i)).collect();
                        if free.is_empty() {
                            let mut s = pool[guess.latest[g]].clone();
                            guess.next_fresh += 1;
                            s.nonce = keccak(&[b"fresh".as_ref(), &guess.next_fresh.to_le_bytes()].concat());
                            (Cand::Inline(s), None)
                        } else {
                            let i = *rng.pick(&free);
                            (Cand::Pool(i as u8), Some(i))
                        }
                    };
                    let proof = if fault && rng.chance(1, 3) { faulty_proof(rng, &pool, by, &t) } else { honest_proof(rng, &pool, by, true) };
                    let auth = if !bypass {
                        AuthVar::Nobody
                    } else if fault && t.auth && rng.chance(1, 2) {
                        *rng.pick(&[AuthVar::Stranger, AuthVar::Nobody, AuthVar::Former, AuthVar::Owner, AuthVar::RightOtherArgs])
                    } else {
                        AuthVar::Right
                    };
                    let clean = proof.tamper == Tamper::None && proof.sig_fault == SigFault::None && proof.digest.honest();
                    if let Some(i) = cand_pool {
                        if clean && (by == guess.latest[g] || (bypass && auth == AuthVar::Right)) && (auth == AuthVar::Right || !bypass) {
                            // optimistic: assume it goes through (the delay may still refuse it)
                            if gateways_delay(&cfg, g) == 0 || bypass {
                                guess.latest[g] = i;
                                guess.installed[g].push(i);
                            }
                        }
                    }
                    GOp::Rotate { gw: g as u8, cand, proof, bypass, auth, abort: opt_abort(rng, t.abort, 150) }
                }
                6 => GOp::RetentionSweep { gw: g as u8, via_approve: rng.chance(1, 2) },
                7 => {
                    let n = rng.below(4) as usize;
                    let mut sets: Vec<Cand> = (0..n).map(|_| Cand::Pool(rng.below(pool.len() as u64) as u8)).collect();
                    if n > 0 && rng.chance(1, 3) {
                        let base = pool[rng.usize(pool.len())].clone();
                        let i = rng.usize(n);
                        sets[i] = Cand::Inline(malformed_candidate(rng, &keys, &sorted, &base));
                    }
                    if n > 1 && rng.chance(1, 4) {
                        sets[1] = sets[0].clone();
                    }
                    GOp::Construct { sets, retention: *rng.pick(rets), delay: *rng.pick(delays) }
                }
                8 => {
                    let dt = if t.clock || focus == "C09" {
                        match rng.weighted(&[2, 4, 8, 1]) {
                            0 => ClockMove::Zero,
                            1 => ClockMove::Plus(*rng.pick(&[1u32, 1, 5, 60, 3600, 100_000])),
                            2 => ClockMove::Boundary { gw: g as u8, delta: *rng.pick(&[-1i8, 0, 1, 0, -1]) },
                            _ => ClockMove::Far,
                        }
                    } else {
                        ClockMove::Boundary { gw: g as u8, delta: 0 }
                    };
                    if gateways_delay(&cfg, g) > 0 {
                        // after time passes the optimistic guess about rotations is as good as before
                    }
                    GOp::Advance { dt, dseq: *rng.pick(&[0u32, 1, 1, 3, 17, 100, 5000, 1_100_000]) }
                }
                9 => {
                    let auth = if fault && t.auth || (focus == "C06" && rng.chance(1, 2)) {
                        *rng.pick(&[AuthVar::Stranger, AuthVar::Nobody, AuthVar::Former, AuthVar::OtherRole, AuthVar::Counterparty, AuthVar::RightOtherArgs])
                    } else {
                        AuthVar::Right
                    };
                    GOp::TransferRole {
                        gw: g as u8,
                        owner_role: rng.chance(1, 2),
                        to: rng.below(N_PRINCIPALS as u64) as u8,
                        auth,
                        abort: opt_abort(rng, t.abort, 150),
                    }
                }
                10 => {
                    let auth = if fault && t.auth { *rng.pick(&[AuthVar::Stranger, AuthVar::Nobody, AuthVar::Counterparty, AuthVar::Owner, AuthVar::RightOtherArgs]) } else if t.auth && rng.chance(1, 6) { AuthVar::Everyone } else { AuthVar::Right };
                    GOp::CallContract {
                        gw: g as u8,
                        sender: if rng.chance(1, 12) { 200 + rng.below(2) as u8 } else if rng.chance(1, 8) { 100 + rng.below(4) as u8 } else { rng.below(4) as u8 },
                        chain: StrSpec::gen(rng),
                        addr: StrSpec::gen(rng),
                        payload: PayloadSpec::gen(rng, true),
                        auth,
                        abort: opt_abort(rng, t.abort, 150),
                    }
                }
                11 => {
                    let auth = if fault && t.auth { *rng.pick(&[AuthVar::Stranger, AuthVar::Nobody, AuthVar::Counterparty, AuthVar::RootOnly, AuthVar::RightOtherArgs]) } else if t.auth && rng.chance(1, 6) { AuthVar::Everyone } else { AuthVar::Right };
                    GOp::ExampleSend {
                        gw: g as u8,
                        user: rng.below(4) as u8,
                        chain: StrSpec::gen(rng),
                        addr: StrSpec::gen(rng),
                        payload: PayloadSpec::gen(rng, true),
                        gas: *rng.pick(&[1i64, 1, 5, 100, 0, -1, 5000]),
                        auth,
                        abort: opt_abort(rng, t.abort, 150),
                    }
                }
                _ => GOp::Resubmit { k: rng.below(64) as u16 },
            };
            // sweeps ride on rotations when the focus is the retention window
            let is_rot = matches!(op, GOp::Rotate { .. });
            ops.push(op);
            if is_rot && focus == "C08" && rng.chance(3, 4) {
                ops.push(GOp::RetentionSweep { gw: g as u8, via_approve: rng.chance(1, 2) });
            }
            if is_rot && (focus == "C08" || focus == "C03") && rng.chance(1, 2) {
                ops.push(GOp::Advance { dt: ClockMove::Boundary { gw: g as u8, delta: 0 }, dseq: 1 });
            }
        }
        (cfg, ops)
    }

    fn execute(cfg: &GCfg, ops: &[GOp], ctx: &mut Ctx) {
        for p in [
            "probe.exact_threshold_accepted",
            "probe.threshold_reached_by_last_signer",
            "probe.non_prefix_subset_accepted",
            "probe.misdelivered_proof_refused",
        ] {
            if ctx.focus == "C01" {
                ctx.counters.entry(p.to_string()).or_insert(0);
            }
        }
        let Some(mut ex) = GExec::new(cfg, ctx) else { return };
        ex.invariants(ctx, true);
        for (i, op) in ops.iter().enumerate() {
            if ctx.stopped() {
                break;
            }
            ctx.step = i;
            ex.sim.permissive_next = false;
            let eff = match op {
                GOp::Resubmit { k } => {
                    if ex.history.is_empty() {
                        ctx.end_step();
                        continue;
                    }
                    ctx.count("F1.resubmit");
                    ex.history[*k as usize % ex.history.len()].clone()
                }
                o => o.clone(),
            };
            ctx.trace_str(eff.kind());
            run_op(&mut ex, ctx, &eff);
            if i % 3 == 1 && !ctx.stopped() {
                // F7 over the whole exported surface: entry points that did not exist at the pinned commit
                let mut addrs = ex.principals.clone();
                addrs.push(ex.gws[0].addr.clone());
                addrs.push(ex.gws[0].example.clone());
                let gw = ex.gws[0].addr.clone();
                let app = ex.gws[0].example.clone();
                crate::surface::probe_unlisted(ctx, &mut ex.sim, &gw, "axelar-gateway", &addrs, &["C13", "C07", "C02"], &["C02", "C03", "C06", "C07", "C01", "C08", "C09", "C16"]);
                crate::surface::probe_unlisted(ctx, &mut ex.sim, &app, "example", &addrs, &["C13", "C07", "C16"], &["C16", "C07"]);
            }
            if !matches!(op, GOp::Resubmit { .. }) && !matches!(op, GOp::Advance { .. } | GOp::RetentionSweep { .. } | GOp::Query { .. }) {
                ex.history.push(op.clone());
            }
            if !ctx.stopped() {
                let full = matches!(eff, GOp::Rotate { .. } | GOp::Construct { .. } | GOp::TransferRole { .. }) || i % 6 == 5;
                ex.invariants(ctx, full);
            }
            ctx.trace_u64(ex.state_hash());
            ctx.trace_u64(ex.sim.digest().0);
            ctx.end_step();
        }
        if !ctx.stopped() {
            ctx.step = ops.len();
            ex.history_checks(ctx);
            if cfg.tail && !ctx.stopped() {
                ex.tail(ctx);
            }
            if !ctx.stopped() {
                ex.invariants(ctx, true);
                ex.history_checks(ctx);
            }
            ctx.trace_u64(ex.sim.digest().0);
            ctx.end_step();
        }
        for (k, v) in std::mem::take(&mut ex.sim.counters) {
            ctx.count_n(&k, v);
        }
    }

    fn simplify(op: &GOp) -> Vec<GOp> {
        let mut out = vec![];
        let mut o = op.clone();
        // drop the abort fault
        match &mut o {
            GOp::Approve { abort, .. }
            | GOp::Consume { abort, .. }
            | GOp::Deliver { abort, .. }
            | GOp::Rotate { abort, .. }
            | GOp::TransferRole { abort, .. }
            | GOp::CallContract { abort, .. }
            | GOp::ExampleSend { abort, .. } => {
                if abort.is_some() {
                    *abort = None;
                    out.push(o.clone());
                }
            }
            _ => {}
        }
        match op {
            GOp::Approve { gw, proof, msgs, abort } => {
                if msgs.len() > 1 {
                    for i in 0..msgs.len() {
                        let mut m = msgs.clone();
                        m.remove(i);
                        out.push(GOp::Approve { gw: *gw, proof: proof.clone(), msgs: m, abort: *abort });
                    }
                }
                if proof.mask != u64::MAX {
                    let mut p = proof.clone();
                    p.mask = u64::MAX;
                    out.push(GOp::Approve { gw: *gw, proof: p, msgs: msgs.clone(), abort: *abort });
                }
            }
            GOp::CallContract { gw, sender, chain, addr, payload, auth, abort } => {
                if payload.len > 1 {
                    out.push(GOp::CallContract { gw: *gw, sender: *sender, chain: chain.clone(), addr: addr.clone(), payload: PayloadSpec { len: 1, tag: payload.tag }, auth: *auth, abort: *abort });
                }
                if *chain != StrSpec::Ascii(0) {
                    out.push(GOp::CallContract { gw: *gw, sender: *sender, chain: StrSpec::Ascii(0), addr: StrSpec::Ascii(2), payload: payload.clone(), auth: *auth, abort: *abort });
                }
            }
            GOp::Advance { dt, dseq } if *dseq > 0 => out.push(GOp::Advance { dt: dt.clone(), dseq: 0 }),
            _ => {}
        }
        out
    }
}

fn gateways_first_initial(g: &[GwCfg]) -> usize {
    g[0].initial[0]
}
fn gateways_delay(cfg: &GCfg, g: usize) -> u64 {
    cfg.gateways[g].min_delay
}

pub fn run_op(ex: &mut GExec, ctx: &mut Ctx, op: &GOp) {
    match op {
        GOp::Approve { gw, proof, msgs, abort } => ex.do_approve(ctx, *gw, proof, msgs, *abort),
        GOp::ValidateProof { gw, proof, data } => ex.do_validate_proof(ctx, *gw, proof, data),
        GOp::Consume { gw, caller, msg, auth, abort } => ex.do_consume(ctx, *gw, *caller, msg, *auth, *abort),
        GOp::Deliver { gw, app, msg, abort } => ex.do_deliver(ctx, *gw, *app, msg, *abort),
        GOp::Query { gw, msg } => ex.do_query(ctx, *gw, msg),
        GOp::Rotate { gw, cand, proof, bypass, auth, abort } => {
            ex.do_rotate(ctx, *gw, cand, proof, *bypass, *auth, *abort);
        }
        GOp::RetentionSweep { gw, via_approve } => ex.do_retention_sweep(ctx, *gw, *via_approve),
        GOp::Construct { sets, retention, delay } => ex.do_construct(ctx, sets, *retention, *delay),
        GOp::Advance { dt, dseq } => ex.do_advance(ctx, dt, *dseq),
        GOp::TransferRole { gw, owner_role, to, auth, abort } => ex.do_transfer_role(ctx, *gw, *owner_role, *to, *auth, *abort),
        GOp::CallContract { gw, sender, chain, addr, payload, auth, abort } => ex.do_call_contract(ctx, *gw, *sender, chain, addr, payload, *auth, *abort),
        GOp::ExampleSend { gw, user, chain, addr, payload, gas, auth, abort } => ex.do_example_send(ctx, *gw, *user, chain, addr, payload, *gas, *auth, *abort),
        GOp::Resubmit { .. } => {}
    }
}
