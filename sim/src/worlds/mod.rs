pub mod g;
pub mod g_exec;
pub mod g_exec2;
pub mod g_types;
pub mod t;
pub mod s;
pub mod o;
