//! World I executor, part 3: the hub stub builds, approves and delivers
//! inbound messages, with one deviation at a time (C04), wire corruption (C10
//! in situ), and the effects of conforming deliveries (C05, C11).

use super::i_exec::*;

/// pseudo holder for credits to addresses the simulator does not own
pub const UNTRACKED: usize = 99;
use super::i_ops::DSTS;
use super::i_types::*;
use crate::abi::{enc_deploy, enc_hub, enc_transfer, w, AHub, AMsg, Word};
use crate::engine::{Ctx, Verdict};
use crate::host::{addr_bytes, Ev};
use crate::judge::after_call;
use crate::oracle::*;
use interchain_token_service::types as rt;
use soroban_sdk::xdr::ScVal;
use soroban_sdk::{Address, Bytes, IntoVal, String as SStr, Val, Vec as SVec};
use std::collections::{BTreeMap, BTreeSet};
use std::panic::{catch_unwind, AssertUnwindSafe};

fn pow2(n: u32) -> Word {
    let mut o = [0u8; 32];
    o[31 - (n / 8) as usize] = 1 << (n % 8);
    o
}

pub fn repo_to_ahub(m: &rt::HubMessage) -> AHub {
    let conv = |m: &rt::Message| -> AMsg {
        match m {
            rt::Message::InterchainTransfer(t) => AMsg::Transfer {
                id: t.token_id.to_array(),
                src: t.source_address.to_alloc_vec(),
                dst: t.destination_address.to_alloc_vec(),
                amount: t.amount as u128,
                data: t.data.as_ref().map(|d| d.to_alloc_vec()).unwrap_or_default(),
            },
            rt::Message::DeployInterchainToken(d) => AMsg::Deploy {
                id: d.token_id.to_array(),
                name: sstr_to_string(&d.name),
                symbol: sstr_to_string(&d.symbol),
                decimals: d.decimals,
                minter: d.minter.as_ref().map(|d| d.to_alloc_vec()).unwrap_or_default(),
            },
        }
    };
    match m {
        rt::HubMessage::SendToHub { destination_chain, message } => AHub { send: true, chain: sstr_to_string(destination_chain), msg: conv(message) },
        rt::HubMessage::ReceiveFromHub { source_chain, message } => AHub { send: false, chain: sstr_to_string(source_chain), msg: conv(message) },
    }
}

/// the repository's decoder on arbitrary bytes: Ok(Some) decoded, Ok(None)
/// rejected, Err = it crashed
pub fn repo_decode(env: &soroban_sdk::Env, bytes: &[u8]) -> Result<Option<AHub>, String> {
    let b = Bytes::from_slice(env, bytes);
    let r = catch_unwind(AssertUnwindSafe(|| rt::HubMessage::abi_decode(env, &b)));
    match r {
        Ok(Ok(m)) => Ok(Some(repo_to_ahub(&m))),
        Ok(Err(_)) => Ok(None),
        Err(p) => Err(p.downcast_ref::<String>().cloned().or_else(|| p.downcast_ref::<&str>().map(|s| s.to_string())).unwrap_or_else(|| "panic".into())),
    }
}

struct Delivery {
    source_chain: String,
    message_id: String,
    source_address: String,
    payload: Vec<u8>,
}

impl<'a> IExec<'a> {
    #[allow(clippy::too_many_arguments)]
    pub fn do_inbound(&mut self, ctx: &mut Ctx, msg_id: u8, origin: u8, body: &InBody, dev: &Dev, abort: Option<u16>) {
        let env = self.sim.env.clone();
        let its = self.its();
        let origin_chain = self.chain(origin).to_string();
        // ---- 1. the hub builds the inner message (independent encoder)
        let mut inner_tag = w(0);
        let mut announced_amt: Option<Word> = None;
        // what the hub wrote, field by field, when every field is representable
        let mut announced_msg: Option<AMsg> = None;
        let inner: Vec<u8> = match body {
            InBody::Transfer { tok, to, amount, data, src } => {
                let (id, t_opt) = match self.resolve_tok(tok) {
                    Ok((id, t, _)) => (id, Some(t)),
                    Err(id) => (id, None),
                };
                let custody = t_opt.map(|t| self.toks[t].locked - self.toks[t].released).unwrap_or(0);
                let amt: Word = match amount {
                    InAmt::Zero => w(0),
                    InAmt::Lit(v) => w((*v).max(0) as u128),
                    InAmt::Custody => w(custody.max(0) as u128),
                    InAmt::CustodyPlus1 => w(custody.max(0) as u128 + 1),
                    InAmt::I128Max => w(i128::MAX as u128),
                    InAmt::TwoPow127 => pow2(127),
                    InAmt::TwoPow128 => pow2(128),
                    InAmt::TwoPow255 => pow2(255),
                    InAmt::HighBitPlus { bit, low } => {
                        ctx.count("probe.inbound_small_amount_under_a_stray_high_bit");
                        let mut o = pow2((*bit as u32).clamp(127, 255));
                        o[30..].copy_from_slice(&low.to_be_bytes());
                        o
                    }
                };
                announced_amt = Some(amt);
                let rb: Vec<u8> = match to {
                    Recipient::User(u) => xdr_of(&saddr(&self.h[2 + *u as usize % 4])),
                    Recipient::App => xdr_of(&saddr(&self.h[H_APP])),
                    Recipient::Service => {
                        ctx.count("probe.inbound_recipient_is_the_token_service");
                        xdr_of(&saddr(&self.h[H_ITS]))
                    }
                    Recipient::GasService => xdr_of(&saddr(&self.h[H_GAS])),
                    Recipient::Garbage => {
                        ctx.count("probe.inbound_undecodable_recipient");
                        // bytes that are not the XDR of an address, some of them built from the
                        // system's own addresses in another form (strkey text, raw 32 bytes)
                        match *src % 6 {
                            0 => vec![1, 2, 3, 4, 5],
                            1 => xdr_of(&su32(7)),
                            2 => strkey_text(&self.h[2 + (*src as usize / 6) % 4]),
                            3 => strkey_text(&crate::host::account_twin(&self.sim.env, &self.h[2])),
                            4 => addr_bytes(&self.h[2]).to_vec(),
                            _ => vec![],
                        }
                    }
                };
                let db: Vec<u8> = data.map(|i| self.cfg.payloads[i as usize % self.cfg.payloads.len()].clone()).unwrap_or_default();
                if let Dev::InnerTypeUnsupported(t) = dev {
                    inner_tag = w(*t as u128);
                }
                if amt[..16] == [0u8; 16] && amt[16] < 0x80 {
                    announced_msg = Some(AMsg::Transfer { id, src: DSTS[*src as usize % DSTS.len()].to_vec(), dst: rb.clone(), amount: u128::from_be_bytes(amt[16..].try_into().unwrap()), data: db.clone() });
                }
                enc_transfer(inner_tag, &id, DSTS[*src as usize % DSTS.len()], &rb, amt, &db)
            }
            InBody::Deploy { id, meta, minter } => {
                let idb: [u8; 32] = match id {
                    InId::Fresh(n) => keccak(&[b"remote-token".as_ref(), &[*n]].concat()),
                    InId::CanonicalOf(tk) => {
                        ctx.count("probe.remote_deploy_for_a_canonical_id");
                        let t = *tk as usize % self.toks.len();
                        let a = self.nontoken_addr(*tk).unwrap_or_else(|| self.tok_addr[t].clone());
                        its_token_id(&its_canonical_salt(&self.cfg.chain_name, &saddr(&a)))
                    }
                    InId::LocalOf { caller, salt } => {
                        ctx.count("probe.remote_deploy_for_a_local_deployers_id");
                        its_token_id(&its_deploy_salt(&self.cfg.chain_name, &saddr(&self.h[2 + *caller as usize % 4]), &super::i_ops::salt_bytes(*salt)))
                    }
                    InId::Taken(k) => {
                        if self.m.reg_order.is_empty() {
                            keccak(&[b"remote-token".as_ref(), &[*k]].concat())
                        } else {
                            ctx.count("F12.remote_deploy_for_taken_id");
                            self.m.reg_order[*k as usize % self.m.reg_order.len()]
                        }
                    }
                };
                let mb: Vec<u8> = match minter {
                    InMinter::None => vec![],
                    InMinter::User(u) => xdr_of(&saddr(&self.h[2 + *u as usize % 4])),
                    InMinter::Garbage => {
                        ctx.count("probe.inbound_undecodable_minter");
                        vec![9, 9, 9]
                    }
                    InMinter::NonAddress(k) => {
                        ctx.count("probe.inbound_minter_is_xdr_of_a_non_address");
                        match k % 6 {
                            0 => xdr_of(&su32(7)),
                            1 => xdr_of(&sstr("minter")),
                            2 => xdr_of(&sbytes(&[1u8; 32])),
                            3 => xdr_of(&svec(vec![saddr(&self.h[2])])),
                            4 => strkey_text(&self.h[2]),
                            _ => strkey_text(&crate::host::account_twin(&self.sim.env, &self.h[3])),
                        }
                    }
                };
                inner_tag = w(1);
                if let Dev::InnerTypeUnsupported(t) = dev {
                    inner_tag = w(*t as u128);
                }
                let decimals = DECIMALS[meta.decimals as usize % DECIMALS.len()].min(255);
                announced_msg = Some(AMsg::Deploy { id: idb, name: NAMES[meta.name as usize % NAMES.len()].to_string(), symbol: SYMS[meta.symbol as usize % SYMS.len()].to_string(), decimals: decimals as u8, minter: mb.clone() });
                enc_deploy(inner_tag, &idb, NAMES[meta.name as usize % NAMES.len()].as_bytes(), SYMS[meta.symbol as usize % SYMS.len()].as_bytes(), w(decimals as u128), &mb)
            }
        };
        // ---- 1b. corruption of the nested message before it is wrapped (the wrapper stays canonical)
        let mut inner = inner;
        match dev {
            Dev::InnerTrailing(k) => {
                inner.extend(std::iter::repeat(0u8).take(32 * (1 + *k as usize % 3)));
                ctx.count("F6.inner_trailing_word");
            }
            Dev::InnerDirtyWord(wd) => {
                // set a high-order byte of one of the static head words (type, decimals / amount)
                let idx = [0usize, 4][*wd as usize % 2] * 32;
                if inner.len() > idx + 32 {
                    inner[idx + 29] ^= 0x01;
                }
                ctx.count("F6.inner_dirty_static_word");
            }
            Dev::InnerDirtyPadding => {
                let l = inner.len();
                if l > 0 {
                    inner[l - 1] ^= 0x01;
                }
                ctx.count("F6.inner_dirty_padding");
            }
            _ => {}
        }
        // ---- 2. wrapper
        let outer_tag = match dev {
            Dev::OuterTypeSend => w(3),
            Dev::OuterTypeOther(t) => w(*t as u128),
            _ => w(4),
        };
        let mut payload = enc_hub(outer_tag, origin_chain.as_bytes(), &inner);
        // ---- 3. corruption on the wire (F6)
        match dev {
            Dev::Truncated(n) => {
                let cut = 1 + (*n as usize % payload.len().max(1));
                payload.truncate(payload.len().saturating_sub(cut));
                ctx.count("F6.truncated");
            }
            Dev::Trailing(k) => {
                payload.extend(std::iter::repeat(0u8).take(1 + *k as usize % 64));
                ctx.count("F6.trailing_bytes");
            }
            Dev::BitFlip(b) => {
                let bit = *b as usize % (payload.len() * 8);
                payload[bit / 8] ^= 1 << (bit % 8);
                ctx.count("F6.bit_flip");
            }
            Dev::DirtyPadding => {
                // last byte of the payload is padding whenever the last tail is not a multiple of 32
                let l = payload.len();
                payload[l - 1] ^= 0x01;
                ctx.count("F6.dirty_padding");
            }
            Dev::OffsetEdit(d) => {
                // second head word of the wrapper is the offset of the chain string
                let v = (payload[63] as i16 + *d as i16).clamp(0, 255) as u8;
                payload[63] = v;
                ctx.count("F6.offset_edit");
            }
            _ => {}
        }
        // ---- 4. what do these bytes mean?  (repository decoder, certified by the independent re-encoding)
        let decoded = match repo_decode(&env, &payload) {
            Ok(d) => d,
            Err(p) => {
                ctx.check(false, &["C10"], "codec/decoder-crashed", || format!("abi_decode panicked on {}: {}", hex::encode(&payload), p));
                return;
            }
        };
        // the amount the hub announced, as it wrote it, against what the service reads out of the same bytes
        let bytes_as_built = matches!(dev, Dev::None | Dev::NeverApproved | Dev::ApprovedOtherPayload | Dev::ApprovedOtherId | Dev::ApprovedOtherSourceAddress | Dev::ApprovedOtherDestination | Dev::SourceChainNotHub | Dev::SourceAddressNotHub | Dev::DeliverTwice);
        if let (true, Some(aw), Some(AHub { msg: AMsg::Transfer { amount, .. }, .. })) = (bytes_as_built, announced_amt, &decoded) {
            if !ctx.check(w(*amount as u128) == aw, &["C05", "C04", "C10"], "its.decode/announced-amount-misread", || {
                format!("the hub announced amount 0x{} and the service reads {}", hex::encode(aw), amount)
            }) {
                return;
            }
        }
        // ... and every other field: a decoder that trims, folds or otherwise "repairs" what the hub wrote
        if let (true, Some(am), Some(d)) = (bytes_as_built, &announced_msg, &decoded) {
            let tags: &[&'static str] = if matches!(am, AMsg::Deploy { .. }) { &["C11", "C04", "C10"] } else { &["C05", "C04", "C10"] };
            if !ctx.check(d.msg == *am && d.chain == origin_chain && !d.send, tags, "its.decode/announced-message-misread", || {
                format!("the hub announced {:?} from {:?} and the service reads {:?}", am, origin_chain, d)
            }) {
                return;
            }
        }
        let mut decoded = decoded;
        if let Some(m) = &decoded {
            let re = m.encode();
            let canonical = re == payload;
            // For C10 / C04 this is the violation.  For the other properties the model keeps to the
            // canonical reading — these bytes are no message at all, the delivery must be refused — and
            // the run goes on, so that what a lenient decoder leads to (a token nobody requested, an
            // amount nobody announced) is seen by the property it hurts.
            if !ctx.check_for_focus_only(canonical, &["C10", "C04"], "codec/accepted-non-canonical-encoding", || {
                format!("decoder accepted bytes that are not the canonical encoding of what it returned: input {} re-encoded {}", hex::encode(&payload), hex::encode(&re))
            }) {
                return;
            }
            if canonical {
                ctx.count("probe.in_situ_decoded_and_reencoded");
            } else {
                decoded = None;
            }
        } else {
            ctx.count("probe.in_situ_rejected_by_decoder");
        }
        // ---- 5. approval at the gateway (stub verifiers + relayer)
        let hub_addr = self.cfg.hub_address.clone();
        let mid = if msg_id >= 100 { format!("tail-{}", msg_id) } else { format!("in-{}", msg_id) };
        let mut del = Delivery { source_chain: HUB_CHAIN.to_string(), message_id: mid.clone(), source_address: hub_addr.clone(), payload: payload.clone() };
        match dev {
            Dev::SourceChainNotHub => del.source_chain = "ethereum".to_string(),
            Dev::SourceAddressNotHub => del.source_address = "not-the-hub-address".to_string(),
            _ => {}
        }
        let mut approved = MMsg { source_chain: del.source_chain.clone(), message_id: del.message_id.clone(), source_address: del.source_address.clone(), contract: addr_bytes(&its), payload_hash: keccak(&payload), account: false };
        let mut dest = its.clone();
        let mut do_approve = true;
        match dev {
            Dev::NeverApproved => do_approve = false,
            Dev::ApprovedOtherPayload => approved.payload_hash = keccak(&approved.payload_hash),
            Dev::ApprovedOtherId => approved.message_id = format!("{}-other", mid),
            Dev::ApprovedOtherSourceAddress => approved.source_address = "somebody-else".to_string(),
            Dev::ApprovedOtherDestination => {
                dest = self.h[H_APP].clone();
                approved.contract = addr_bytes(&dest);
            }
            _ => {}
        }
        if *dev != Dev::None {
            ctx.count(&format!("probe.deviation.{}", dev_name(dev)));
        }
        if do_approve && !self.gw_approve(ctx, &approved, &dest) {
            return;
        }
        // ---- 6. delivery (possibly twice)
        let times = if *dev == Dev::DeliverTwice { 2 } else { 1 };
        for k in 0..times {
            if ctx.stopped() {
                return;
            }
            if k == 1 {
                ctx.count("F1.duplicate_delivery");
            }
            let kind_tag = if matches!(body, InBody::Deploy { .. }) { "C11" } else { "C05" };
            self.deliver(ctx, &del, &decoded, kind_tag, if k == 0 { abort } else { None });
        }
    }

    fn deliver(&mut self, ctx: &mut Ctx, del: &Delivery, decoded: &Option<AHub>, kind_tag: &'static str, abort: Option<u16>) {
        let env = self.sim.env.clone();
        let its = self.its();
        let key = (del.source_chain.clone(), del.message_id.clone());
        // ---- verdict
        let mut reasons: Vec<&'static str> = vec![];
        let claimed = MMsg { source_chain: del.source_chain.clone(), message_id: del.message_id.clone(), source_address: del.source_address.clone(), contract: addr_bytes(&its), payload_hash: keccak(&del.payload), account: false };
        match self.m.gw.get(&key) {
            Some(GStat::Approved(m)) if *m == claimed => {}
            Some(GStat::Approved(_)) => reasons.push("approval-does-not-match-delivery"),
            Some(GStat::Executed) => reasons.push("already-executed"),
            None => reasons.push("never-approved"),
        }
        if del.source_chain != HUB_CHAIN {
            reasons.push("source-chain-not-hub");
        }
        if del.source_address != self.cfg.hub_address {
            reasons.push("source-address-not-hub-address");
        }
        enum Eff {
            Give { t: usize, native: bool, id: [u8; 32], to: Option<usize>, amount: i128, data: Vec<u8>, src: Vec<u8>, origin: String },
            Deploy { id: [u8; 32], name: String, symbol: String, decimals: u8, minter: Option<usize>, origin: String },
        }
        let mut eff: Option<Eff> = None;
        let mut either = false;
        match decoded {
            None => reasons.push("undecodable-or-unsupported-payload"),
            Some(h) if h.send => reasons.push("not-a-receive-from-hub-wrapper"),
            Some(h) => {
                if !self.m.trusted.contains(&h.chain) {
                    if self.m.ever_trusted.contains(&h.chain) {
                        ctx.count("probe.inbound_from_chain_untrusted_again");
                    }
                    reasons.push("origin-chain-not-trusted");
                }
                match &h.msg {
                    AMsg::Transfer { id, src, dst, amount, data } => {
                        let to = self.h.iter().position(|a| xdr_of(&saddr(a)) == *dst);
                        let reg = self.m.registry.get(id).copied();
                        if to.is_none() {
                            // a well-formed address the simulator does not track still decodes; only undecodable bytes are a reason
                            if decode_address(&env, dst).is_none() {
                                reasons.push("undecodable-recipient");
                            } else {
                                either = true;
                            }
                        }
                        match reg {
                            None => reasons.push("unknown-token"),
                            Some((t, native)) => {
                                let a = *amount as i128;
                                // a service-deployed token that is also registered as a canonical token has two
                                // managers; what the lock / unlock side can release is then whatever the service
                                // holds (it may have been minted to the service under the other id)
                                let available = if self.toks[t].kind == TokKind::Wasm { self.bal(t, H_ITS) } else { self.toks[t].locked - self.toks[t].released };
                                if !native && available < a {
                                    ctx.count("probe.inbound_exceeds_custody");
                                    reasons.push("insufficient-custody");
                                }
                                if !native && available == a && a > 0 {
                                    ctx.count("probe.custody_exactly_drained");
                                }
                                if to == Some(BLOCKED_USER) && self.toks[t].kind == TokKind::Probe && !native {
                                    ctx.count("F9.token_refuses_receiver");
                                    reasons.push("token-refuses-this-receiver");
                                }
                                if let Some(to) = to {
                                    // (a release of custody to the custodian itself is a transfer from the service
                                    // to the service: nothing is added to its balance)
                                    if (native || to != H_ITS) && self.bal(t, to).checked_add(a).is_none() {
                                        // a credit that cannot be represented cannot be "exactly the announced amount"
                                        ctx.count("probe.inbound_credit_would_overflow");
                                        reasons.push("credit-would-overflow");
                                    }
                                    if !data.is_empty() {
                                        if to != H_APP || data[0] == 0xff {
                                            ctx.count("F9.destination_app_fails");
                                            reasons.push("destination-app-fails");
                                        }
                                    }
                                    if to == H_ITS && !native {
                                        // releasing custody to the custodian itself: the statement's custody
                                        // equation has no reading for it
                                        either = true;
                                    }
                                } else if !data.is_empty() {
                                    // data for an address that is no application
                                    either = true;
                                }
                                eff = Some(Eff::Give { t, native, id: *id, to, amount: a, data: data.clone(), src: src.clone(), origin: h.chain.clone() });
                            }
                        }
                    }
                    AMsg::Deploy { id, name, symbol, decimals, minter } => {
                        if self.m.registry.contains_key(id) || self.m.nontoken.contains_key(id) {
                            reasons.push("token-id-already-registered");
                        }
                        if name.is_empty() || symbol.is_empty() {
                            reasons.push("unrepresentable-metadata");
                        }
                        let mh: Option<usize> = if minter.is_empty() {
                            None
                        } else {
                            match self.h.iter().position(|a| xdr_of(&saddr(a)) == *minter) {
                                Some(i) => Some(i),
                                None => {
                                    if decode_address(&env, minter).is_none() {
                                        reasons.push("undecodable-minter");
                                    } else {
                                        either = true;
                                    }
                                    None
                                }
                            }
                        };
                        eff = Some(Eff::Deploy { id: *id, name: name.clone(), symbol: symbol.clone(), decimals: *decimals, minter: mh, origin: h.chain.clone() });
                    }
                }
            }
        }
        let label: String = if reasons.is_empty() { if either { "either".into() } else { "conforming".into() } } else { reasons.join("+") };
        ctx.judged(&["C04", "C05", "C10", "C11"], self.state_hash(), "inbound", &label);
        let args: SVec<Val> = (SStr::from_str(&env, &del.source_chain), SStr::from_str(&env, &del.message_id), SStr::from_str(&env, &del.source_address), Bytes::from_slice(&env, &del.payload)).into_val(&env);
        let res = self.sim.call(&its, "execute", args, &[], abort);
        ctx.note(|| format!("inbound {:?} id={} verdict={} -> {}", decoded.as_ref().map(|h| (&h.chain, h.send)), del.message_id, label, res.out.err_text()));
        if !after_call(ctx, &res, "execute", &["C04"]) {
            return;
        }
        ctx.count(&format!("op.inbound.{}.{}", if reasons.is_empty() { "conforming" } else { reasons[0] }, res.out.class()));
        if !reasons.is_empty() {
            let only_hub_addr = reasons == vec!["source-address-not-hub-address"];
            let cls = if only_hub_addr { "its.execute/source-address-not-hub-address".to_string() } else { format!("inbound/acted-on:{}", reasons[0]) };
            let tags: &[&'static str] = match reasons[0] {
                // re-deploying under a taken id changes which token moves under that id: custody and supply (C05) rest on it
                "token-id-already-registered" => &["C04", "C11", "C05"],
                "unrepresentable-metadata" | "undecodable-minter" => &["C04", "C11"],
                "undecodable-or-unsupported-payload" | "not-a-receive-from-hub-wrapper" => match kind_tag {
                    "C11" => &["C04", "C10", "C11"],
                    _ => &["C04", "C10", "C05"],
                },
                "insufficient-custody" | "unknown-token" | "undecodable-recipient" | "token-refuses-this-receiver" | "credit-would-overflow" => &["C04", "C05"],
                // a message that takes effect a second time credits its amount twice (C05) or deploys twice (C11)
                "already-executed" => match kind_tag {
                    "C11" => &["C04", "C11"],
                    _ => &["C04", "C05"],
                },
                _ => &["C04"],
            };
            match ctx.expect(res.out.is_err(), tags, &cls, || format!("delivery that must be refused ({}) was executed", label)) {
                Verdict::Pass => {
                    ctx.check(res.unchanged_full() && res.events.is_empty(), &["C04"], "inbound/refused-delivery-changed-state", || "a refused delivery changed the ledger (balances, registry or the gateway's approval record)".into());
                    self.gw_status_check(ctx, &del.source_chain, &del.message_id, &["C04"]);
                    return;
                }
                Verdict::Adopt => { /* known finding: the model follows the implementation and applies the effects below */ }
                Verdict::Stop => return,
            }
        } else if res.out.is_err() {
            // conforming delivery refused
            if either {
                return;
            }
            if let Some(Eff::Give { t, native: true, .. }) = &eff {
                if !self.toks[*t].minters.contains(&H_ITS) {
                    ctx.count("probe.inbound_to_minter_revoked_token");
                    ctx.expect(false, &["C11", "C04"], "its.execute/inbound-to-minter-revoked-token", || "approved inbound transfer to a service-deployed token failed: the service cannot mint".into());
                    return;
                }
            }
            let tags: &[&'static str] = if matches!(eff, Some(Eff::Deploy { .. })) { &["C04", "C11"] } else { &["C04", "C05"] };
            ctx.check(false, tags, "inbound/conforming-delivery-refused", || format!("approved, well-formed hub message was refused: {}", res.out.err_text()));
            return;
        }
        // ---- effects of an executed delivery
        self.m.gw.insert(key.clone(), GStat::Executed);
        *self.m.effects_applied.entry(key.clone()).or_insert(0) += 1;
        let gw_ev = Ev { contract: addr_bytes(&self.gateway), topics: vec![sym("message_executed"), claimed.to_scval()], data: ScVal::Void };
        let from_gw = self.from(&res.events, &self.gateway.clone());
        if !ctx.check(crate::judge::events_match(&from_gw, &[gw_ev], &[]), &["C04"], "inbound/approval-not-consumed-exactly-once", || format!("{:?}", from_gw)) {
            return;
        }
        let from_its = self.from(&res.events, &its);
        match eff {
            Some(Eff::Give { t, native, id, to, amount, data, src, origin }) => {
                if native {
                    ctx.count("probe.inbound_mint_path");
                    self.toks[t].supply = self.toks[t].supply.wrapping_add(amount);
                } else if to == Some(H_ITS) {
                    // custody "released" to the custodian itself: nothing moves, and the model does not
                    // count it as released either (the custody equation is stated over the service's balance)
                    ctx.count("probe.inbound_release_to_the_service_itself");
                } else {
                    ctx.count("probe.inbound_release_path");
                    self.add_bal(t, H_ITS, -amount);
                    self.toks[t].released = self.toks[t].released.wrapping_add(amount);
                }
                match to {
                    Some(to) => {
                        if native || to != H_ITS {
                            self.add_bal(t, to, amount);
                        }
                        let exp = vec![Ev {
                            contract: addr_bytes(&its),
                            topics: vec![sym("interchain_transfer_received"), sstr(&origin), sbytes(&id), sbytes(&src), saddr(&self.h[to]), si128(amount)],
                            data: svec(vec![if data.is_empty() { ScVal::Void } else { sbytes(&data) }]),
                        }];
                        if !ctx.check(crate::judge::events_match(&from_its, &exp, &[]), &["C05"], "inbound/wrong-received-event", || format!("{:?}", from_its)) {
                            return;
                        }
                        if !data.is_empty() {
                            self.m.app_count += 1;
                            ctx.count("probe.inbound_with_data_reached_app");
                        }
                    }
                    None => {
                        // credited to a well-formed address outside the simulator's principals
                        // (a corrupted recipient): tracked under a pseudo holder so that the
                        // supply equation still balances
                        ctx.count("probe.inbound_to_untracked_address");
                        let e = self.toks[t].bal.entry(UNTRACKED).or_insert(0);
                        *e = e.wrapping_add(amount);
                    }
                }
            }
            Some(Eff::Deploy { id, name, symbol, decimals, minter, origin: _ }) => {
                ctx.count("probe.remote_deploy_executed");
                let expected_addr = deployed_address(&[0u8; 32], &addr_bytes(&its), &id);
                let taddr = self.addr_from_id(&expected_addr);
                let mut minters = BTreeSet::new();
                minters.insert(H_ITS);
                if let Some(mh) = minter {
                    minters.insert(mh);
                }
                let t = self.toks.len();
                self.toks.push(Tok { id_bytes: expected_addr, kind: TokKind::Wasm, name, symbol, decimals: decimals as u32, bal: BTreeMap::new(), minters, token_id: Some(id), locked: 0, released: 0, supply: 0, flaky: false, weird: false });
                self.tok_addr.push(taddr);
                self.m.registry.insert(id, (t, true));
                self.m.reg_order.push(id);
                for hd in 0..NH {
                    self.touched.insert((t, hd));
                }
                if !self.invariants(ctx) {
                    return;
                }
                self.check_deployed_token(ctx, t, false);
            }
            None => {}
        }
        self.gw_status_check(ctx, &del.source_chain, &del.message_id, &["C04"]);
    }

    pub fn addr_from_id(&self, id: &[u8; 32]) -> Address {
        use soroban_sdk::TryFromVal;
        Address::try_from_val(&self.sim.env, &soroban_sdk::xdr::ScAddress::Contract(soroban_sdk::xdr::Hash(*id))).unwrap()
    }

    pub fn history_checks(&mut self, ctx: &mut Ctx) {
        for (k, n) in self.m.effects_applied.clone() {
            if !ctx.check(n <= 1, &["C04"], "history/message-took-effect-twice", || format!("{:?} took effect {} times", k, n)) {
                return;
            }
        }
    }
}

pub fn decode_address(env: &soroban_sdk::Env, b: &[u8]) -> Option<Address> {
    use soroban_sdk::xdr::{Limits, ReadXdr};
    use soroban_sdk::TryFromVal;
    let v = ScVal::from_xdr(b, Limits::none()).ok()?;
    match v {
        ScVal::Address(a) => Address::try_from_val(env, &a).ok(),
        _ => None,
    }
}

pub fn dev_name(d: &Dev) -> &'static str {
    match d {
        Dev::None => "none",
        Dev::NeverApproved => "never_approved",
        Dev::ApprovedOtherPayload => "approved_other_payload",
        Dev::ApprovedOtherId => "approved_other_id",
        Dev::ApprovedOtherSourceAddress => "approved_other_source_address",
        Dev::ApprovedOtherDestination => "approved_other_destination",
        Dev::SourceChainNotHub => "source_chain_not_hub",
        Dev::SourceAddressNotHub => "source_address_not_hub",
        Dev::OuterTypeSend => "outer_type_send",
        Dev::OuterTypeOther(_) => "outer_type_other",
        Dev::InnerTypeUnsupported(_) => "inner_type_unsupported",
        Dev::Truncated(_) => "truncated",
        Dev::Trailing(_) => "trailing",
        Dev::BitFlip(_) => "bit_flip",
        Dev::DirtyPadding => "dirty_padding",
        Dev::OffsetEdit(_) => "offset_edit",
        Dev::DeliverTwice => "deliver_twice",
        Dev::InnerTrailing(_) => "inner_trailing",
        Dev::InnerDirtyWord(_) => "inner_dirty_word",
        Dev::InnerDirtyPadding => "inner_dirty_padding",
    }
}

/// the 56 characters of an address's strkey form, as bytes
fn strkey_text(a: &soroban_sdk::Address) -> Vec<u8> {
    let t = a.to_string();
    let mut b = vec![0u8; t.len() as usize];
    t.copy_into_slice(&mut b);
    b
}
