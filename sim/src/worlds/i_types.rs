//! World I (interchain token service): configuration and symbolic operations.

use crate::common::AuthVar;
use serde::{Deserialize, Serialize};

pub const CHAINS: [&str; 14] = [
    "ethereum",
    "avalanche",
    "sui",
    "axelar",
    "héllo-chain",
    "",
    // two long names that differ only in their last character
    "a-very-long-chain-name-that-goes-well-beyond-sixty-four-bytes-of-utf8-text-and-on-and-on-past-one-hundred-and-twenty-eight-bytes-so-that-no-key-size-threshold-is-left-unvisited-A",
    "a-very-long-chain-name-that-goes-well-beyond-sixty-four-bytes-of-utf8-text-and-on-and-on-past-one-hundred-and-twenty-eight-bytes-so-that-no-key-size-threshold-is-left-unvisited-B",
    // spellings that a normalising comparison would identify with "ethereum" / "avalanche" / "héllo-chain"
    "Ethereum",
    "AVALANCHE",
    "ethereum ",
    " ethereum",
    "ethereum\0",
    "he\u{301}llo-chain",
];
pub const HUB_CHAIN: &str = "axelar";
// the empty string is last in both pools; everything before it is acceptable metadata
pub const NAMES: [&str; 10] = [
    "Test Token",
    "t",
    "Unicode Token 🪙",
    "Padded\0\0",
    "\0",
    " lead and trail ",
    "a token name of exactly 32 bytes",
    "a token name of thirty-three bytes",
    "a token name that is longer than one hundred and twenty-eight bytes, which is more than any sensible token would call itself, but it is what it is!",
    "",
];
pub const SYMS: [&str; 8] = ["TST", "T", "UNI🔣", "PAD\0", "\0", "sp ace", "SYMBOL-OF-EXACTLY-THIRTY-TWO-BYT", ""];
pub const DECIMALS: [u32; 8] = [0, 7, 18, 255, 256, 6, 274, u32::MAX];

#[derive(Serialize, Deserialize, Clone, Debug)]
pub struct ICfg {
    pub chain_name: String,
    pub hub_address: String,
    pub n_signers: u8,
    /// metadata of the two probe tokens (index into NAMES/SYMS/DECIMALS)
    pub probe_meta: [MetaSpec; 2],
    pub payloads: Vec<Vec<u8>>,
    pub initial_trusted: Vec<u8>,
}

#[derive(Serialize, Deserialize, Clone, Debug, PartialEq, Eq, Hash)]
pub struct MetaSpec {
    pub name: u8,
    pub symbol: u8,
    pub decimals: u8,
}

#[derive(Serialize, Deserialize, Clone, Debug, PartialEq, Eq, Hash)]
pub enum MinterSpec {
    None,
    User(u8),
    Deployer,
    Service,
}

#[derive(Serialize, Deserialize, Clone, Debug, PartialEq, Eq, Hash)]
pub enum TokRef {
    /// n-th registered token id (modulo the number registered)
    Registered(u8),
    Unknown(u8),
}

#[derive(Serialize, Deserialize, Clone, Debug, PartialEq, Eq, Hash)]
pub enum IAmt {
    Zero,
    Neg,
    Lit(i64),
    Balance,
    BalancePlus1,
    /// outside the range of narrower integer types: 2^64 + 5, -2^64 + 7, i128::MIN + 9, i128::MAX, 2^32 + 3, 2^96 + 1
    Wide(u8),
}

#[derive(Serialize, Deserialize, Clone, Debug, PartialEq, Eq, Hash)]
pub enum Recipient {
    User(u8),
    App,
    Garbage,
    /// the token service itself
    Service,
    GasService,
}

#[derive(Serialize, Deserialize, Clone, Debug, PartialEq, Eq, Hash)]
pub enum InAmt {
    Zero,
    Lit(i64),
    Custody,
    CustodyPlus1,
    I128Max,
    TwoPow127,
    TwoPow128,
    TwoPow255,
    /// 2^bit + low: a small, plausible amount under a stray high bit (bit in 127..=255)
    HighBitPlus { bit: u8, low: u16 },
}

#[derive(Serialize, Deserialize, Clone, Debug, PartialEq, Eq, Hash)]
pub enum InId {
    Fresh(u8),
    Taken(u8),
    /// the id a canonical registration of token `tok` has / would have
    CanonicalOf(u8),
    /// the id a local deployment by (caller, salt) has / would have
    LocalOf { caller: u8, salt: u8 },
}

#[derive(Serialize, Deserialize, Clone, Debug, PartialEq, Eq, Hash)]
pub enum InMinter {
    None,
    User(u8),
    Garbage,
    /// well-formed XDR of a value that is not an address
    NonAddress(u8),
}

#[derive(Serialize, Deserialize, Clone, Debug, PartialEq, Eq, Hash)]
pub enum InBody {
    Transfer { tok: TokRef, to: Recipient, amount: InAmt, data: Option<u8>, src: u8 },
    Deploy { id: InId, meta: MetaSpec, minter: InMinter },
}

/// The single respect in which a delivery deviates from a conforming one.
#[derive(Serialize, Deserialize, Clone, Debug, PartialEq, Eq, Hash)]
pub enum Dev {
    None,
    NeverApproved,
    ApprovedOtherPayload,
    ApprovedOtherId,
    ApprovedOtherSourceAddress,
    ApprovedOtherDestination,
    SourceChainNotHub,
    SourceAddressNotHub,
    OuterTypeSend,
    OuterTypeOther(u16),
    InnerTypeUnsupported(u16),
    Truncated(u16),
    Trailing(u8),
    BitFlip(u32),
    DirtyPadding,
    OffsetEdit(i8),
    DeliverTwice,
    /// extra zero word(s) after the nested message, inside a canonical wrapper
    InnerTrailing(u8),
    /// dirty high-order bytes in a static word of the nested message
    InnerDirtyWord(u8),
    InnerDirtyPadding,
}

#[derive(Serialize, Deserialize, Clone, Debug, PartialEq, Eq, Hash)]
pub enum IOp {
    Trust { chain: u8, set: bool, auth: AuthVar, abort: Option<u16> },
    Deploy { caller: u8, salt: u8, meta: MetaSpec, supply: i64, minter: MinterSpec, auth: AuthVar, abort: Option<u16> },
    Register { tok: u8, abort: Option<u16> },
    Send { caller: u8, tok: TokRef, chain: u8, dst: u8, amount: IAmt, data: Option<u8>, gas_tok: u8, gas: i64, auth: AuthVar, abort: Option<u16> },
    DeployRemote { caller: u8, salt: u8, chain: u8, gas_tok: u8, gas: i64, auth: AuthVar, abort: Option<u16> },
    DeployRemoteCanonical { tok: u8, chain: u8, spender: u8, gas_tok: u8, gas: i64, auth: AuthVar, abort: Option<u16> },
    Inbound { msg_id: u8, origin: u8, body: InBody, dev: Dev, abort: Option<u16> },
    MinterMint { tok: TokRef, who: u8, to: u8, amount: i64 },
    TransferOwnership { to: u8, auth: AuthVar, abort: Option<u16> },
    Advance { dseq: u32 },
    /// a probe (canonical) token changes the metadata it reports
    ProbeSetMeta { tok: u8, meta: MetaSpec },
    /// a probe (canonical) token starts answering metadata reads inconsistently: its real metadata for
    /// `after` reads, then an empty name, an empty symbol and 256 decimals
    ProbeSetFlaky { tok: u8, after: u8 },
    /// a probe (canonical) token starts answering one metadata getter with a value of another type
    ProbeSetWeird { tok: u8, mode: u8 },
    Resubmit { k: u16 },
}

impl IOp {
    pub fn kind(&self) -> &'static str {
        match self {
            IOp::ProbeSetFlaky { .. } => "probe_set_flaky",
            IOp::ProbeSetWeird { .. } => "probe_set_weird",
            IOp::Trust { .. } => "trust",
            IOp::Deploy { .. } => "deploy",
            IOp::Register { .. } => "register",
            IOp::Send { .. } => "send",
            IOp::DeployRemote { .. } => "deploy_remote",
            IOp::DeployRemoteCanonical { .. } => "deploy_remote_canonical",
            IOp::Inbound { .. } => "inbound",
            IOp::MinterMint { .. } => "minter_mint",
            IOp::TransferOwnership { .. } => "transfer_ownership",
            IOp::Advance { .. } => "advance",
            IOp::ProbeSetMeta { .. } => "probe_set_meta",
            IOp::Resubmit { .. } => "resubmit",
        }
    }
}
