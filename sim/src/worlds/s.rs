//! World S: the gas service against a running-balance model (C14) and its
//! rows of the authorisation matrices (C06, C07).

use crate::common::{opt_abort, resolve_auth, AuthCtx, AuthVar, PayloadSpec, StrSpec};
use crate::engine::{Ctx, GenParams, World};
use crate::host::{addr_bytes, AuthEntry, AuthNode, Ev, Sim};
use crate::judge::{after_call, must_fail};
use crate::oracle::*;
use crate::rng::{hash_of, Rng};
use axelar_gas_service::AxelarGasService;
use axelar_soroban_std::types::Token;
use interchain_token::InterchainToken;
use serde::{Deserialize, Serialize};
use serde_json::{json, Value};
use soroban_sdk::testutils::Address as _;
use soroban_sdk::xdr::ScVal;
use soroban_sdk::{Address, Bytes, BytesN, IntoVal, String as SStr, TryFromVal, Val, Vec as SVec};
use soroban_token_sdk::metadata::TokenMetadata;
use std::collections::BTreeMap;

/// amounts whose low 64 (or 32) bits look like a small positive number
pub const WIDE: [i128; 7] = [(1i128 << 64) + 5, -(1i128 << 64) + 7, i128::MIN + 9, i128::MAX, (1i128 << 32) + 3, (1i128 << 96) + 1, -(1i128 << 32) + 2];

pub const NP: usize = 7; // 0 owner, 1 collector, 2-3 spenders, 4-5 receivers, 6 stranger
const STRANGER: usize = 6;
pub const NTOK: usize = 3; // SAC, interchain token, probe token that refuses receiver p5
const BLOCKED_RECEIVER: usize = 5;

#[derive(Serialize, Deserialize, Clone, Debug)]
pub struct SCfg {
    pub initial: i64,
    /// deploy the service with the owner also being the gas collector
    #[serde(default)]
    pub collector_is_owner: bool,
}

#[derive(Serialize, Deserialize, Clone, Debug, PartialEq, Eq, Hash)]
pub enum SAmt {
    Zero,
    Neg,
    Lit(i64),
    Balance,
    BalancePlus1,
    Held,
    HeldPlus1,
    /// an amount outside the range of narrower integer types: see WIDE
    Wide(u8),
}

#[derive(Serialize, Deserialize, Clone, Debug, PartialEq, Eq, Hash)]
pub enum SOp {
    PayGas { spender: u8, token: u8, amount: SAmt, sender: u8, chain: StrSpec, addr: StrSpec, payload: PayloadSpec, meta: u8, auth: AuthVar, abort: Option<u16> },
    AddGas { spender: u8, token: u8, amount: SAmt, sender: u8, msg_id: StrSpec, auth: AuthVar, abort: Option<u16> },
    Collect { receiver: u8, token: u8, amount: SAmt, auth: AuthVar, abort: Option<u16> },
    Refund { receiver: u8, token: u8, amount: SAmt, msg_id: StrSpec, auth: AuthVar, abort: Option<u16> },
    TransferOwnership { to: u8, auth: AuthVar, abort: Option<u16> },
    /// ledgers close (sequence and time advance): nothing the service holds may depend on it
    Advance { dseq: u32 },
    /// harness action: a holder grants the gas service itself an allowance on a gas token (standing
    /// pre-approval).  The service never had a use for it; a payment still needs the spender's authorisation
    ApproveService { holder: u8, token: u8, amount: u16 },
    Resubmit { k: u16 },
}

impl SOp {
    fn kind(&self) -> &'static str {
        match self {
            SOp::ApproveService { .. } => "approve_service",
            SOp::PayGas { .. } => "pay_gas",
            SOp::AddGas { .. } => "add_gas",
            SOp::Collect { .. } => "collect_fees",
            SOp::Refund { .. } => "refund",
            SOp::TransferOwnership { .. } => "transfer_ownership",
            SOp::Advance { .. } => "advance",
            SOp::Resubmit { .. } => "resubmit",
        }
    }
}

#[derive(Clone, Debug, Hash, Default)]
pub struct SModel {
    pub owner: usize,
    pub former_owner: Option<usize>,
    pub held: [i128; NTOK],
    pub bal: [BTreeMap<usize, i128>; NTOK],
    pub paid_in: [i128; NTOK],
    pub paid_out: [i128; NTOK],
    pub collector: usize,
}

pub struct SExec {
    pub sim: Sim,
    pub gas: Address,
    pub tokens: [Address; NTOK],
    pub p: Vec<Address>,
    pub m: SModel,
    pub history: Vec<SOp>,
}

pub struct WorldS;

fn token_sc(addr: &Address, amount: i128) -> ScVal {
    smap(vec![("address", saddr(addr)), ("amount", si128(amount))])
}

impl SExec {
    fn amt(&self, a: &SAmt, t: usize, who: usize) -> i128 {
        let b = *self.m.bal[t].get(&who).unwrap_or(&0);
        match a {
            SAmt::Zero => 0,
            SAmt::Neg => -1,
            SAmt::Lit(v) => *v as i128,
            SAmt::Balance => b,
            SAmt::BalancePlus1 => b + 1,
            SAmt::Held => self.m.held[t],
            SAmt::HeldPlus1 => self.m.held[t] + 1,
            SAmt::Wide(k) => WIDE[*k as usize % WIDE.len()],
        }
    }

    fn gas_events<'a>(&self, evs: &'a [Ev]) -> Vec<&'a Ev> {
        evs.iter().filter(|e| e.contract == addr_bytes(&self.gas)).collect()
    }

    pub fn run_op(&mut self, ctx: &mut Ctx, op: &SOp) {
        let env = self.sim.env.clone();
        let pi = |x: u8| x as usize % NP;
        let gas = self.gas.clone();
        match op {
            SOp::PayGas { spender, token, amount, sender, chain, addr, payload, meta, auth, abort } => {
                let (si, t) = (pi(*spender), *token as usize % NTOK);
                let a = self.amt(amount, t, si);
                let tok = Token { address: self.tokens[t].clone(), amount: a };
                if *spender == 200 {
                    // sender aliasing the spender, and both entry points
                    self.self_spender(ctx, t, a, *abort, *sender % 2 == 0, *meta % 2 == 1);
                    return;
                }
                let pl = payload.resolve();
                let (c, d) = (chain.resolve(), addr.resolve());
                let md = vec![0xabu8; *meta as usize % 4];
                let sender_a = self.p[pi(*sender)].clone();
                let args: SVec<Val> = (sender_a.clone(), SStr::from_str(&env, &c), SStr::from_str(&env, &d), Bytes::from_slice(&env, &pl), self.p[si].clone(), tok.clone(), Bytes::from_slice(&env, &md)).into_val(&env);
                let xfer: SVec<Val> = (self.p[si].clone(), gas.clone(), a).into_val(&env);
                let (entries, ok) = self.spender_auth(ctx, "pay_gas", *auth, si, &args, &xfer, t, a);
                let expect = if a <= 0 { Some("non-positive-amount") } else if *self.m.bal[t].get(&si).unwrap_or(&0) < a { Some("insufficient-spender-balance") } else { None };
                let exp_ev = Ev {
                    contract: addr_bytes(&gas),
                    topics: vec![sym("gas_paid"), saddr(&sender_a), sstr(&c), sstr(&d), sbytes(&keccak(&pl)), saddr(&self.p[si]), token_sc(&self.tokens[t], a)],
                    data: svec(vec![sbytes(&md)]),
                };
                self.judge_in(ctx, "pay_gas", args, entries, *abort, ok, expect, t, si, a, exp_ev);
            }
            SOp::AddGas { spender, token, amount, sender, msg_id, auth, abort } => {
                let (si, t) = (pi(*spender), *token as usize % NTOK);
                let a = self.amt(amount, t, si);
                let tok = Token { address: self.tokens[t].clone(), amount: a };
                let id = msg_id.resolve();
                let sender_a = self.p[pi(*sender)].clone();
                let args: SVec<Val> = (sender_a.clone(), SStr::from_str(&env, &id), self.p[si].clone(), tok).into_val(&env);
                let xfer: SVec<Val> = (self.p[si].clone(), gas.clone(), a).into_val(&env);
                let (entries, ok) = self.spender_auth(ctx, "add_gas", *auth, si, &args, &xfer, t, a);
                let expect = if a <= 0 { Some("non-positive-amount") } else if *self.m.bal[t].get(&si).unwrap_or(&0) < a { Some("insufficient-spender-balance") } else { None };
                let exp_ev = Ev {
                    contract: addr_bytes(&gas),
                    topics: vec![sym("gas_added"), saddr(&sender_a), sstr(&id), saddr(&self.p[si]), token_sc(&self.tokens[t], a)],
                    data: ScVal::Void,
                };
                self.judge_in(ctx, "add_gas", args, entries, *abort, ok, expect, t, si, a, exp_ev);
            }
            SOp::Collect { receiver, token, amount, auth, abort } | SOp::Refund { receiver, token, amount, auth, abort, .. } => {
                let is_collect = matches!(op, SOp::Collect { .. });
                let func: &'static str = if is_collect { "collect_fees" } else { "refund" };
                let (ri, t) = (pi(*receiver), *token as usize % NTOK);
                if *receiver == 200 {
                    self.pay_out_to_self(ctx, is_collect, t, amount, *abort);
                    return;
                }
                let a = self.amt(amount, t, ri);
                let tok = Token { address: self.tokens[t].clone(), amount: a };
                let id = if let SOp::Refund { msg_id, .. } = op { msg_id.resolve() } else { String::new() };
                let args: SVec<Val> = if is_collect { (self.p[ri].clone(), tok.clone()).into_val(&env) } else { (SStr::from_str(&env, &id), self.p[ri].clone(), tok.clone()).into_val(&env) };
                let alt: SVec<Val> = if is_collect { (self.p[ri].clone(), Token { address: self.tokens[t].clone(), amount: a.wrapping_add(1) }).into_val(&env) } else { (SStr::from_str(&env, &id), self.p[(ri + 1) % NP].clone(), tok.clone()).into_val(&env) };
                let col = self.m.collector;
                let c = AuthCtx { right: col, former: None, other_role: if self.m.owner != col { self.m.owner } else { STRANGER }, counterparty: ri, owner: if self.m.owner != col { self.m.owner } else { STRANGER }, stranger: STRANGER };
                if auth.is_fault() {
                    ctx.count(&format!("F7.{}.{}", func, auth.name()));
                }
                let (entries, ok) = match resolve_auth(&mut self.sim, *auth, &c) {
                    None => (vec![], false),
                    Some((w, other)) => (vec![AuthEntry { who: self.p[w].clone(), root: AuthNode::new(&gas, func, if other { alt } else { args.clone() }) }], w == col && !other),
                };
                let held = self.m.held[t];
                // refund of amount 0: the statement does not say
                let expect: Result<bool, &'static str> = if a < 0 {
                    Err("negative-amount")
                } else if a == 0 && is_collect {
                    Err("non-positive-amount")
                } else if a > 0 && t == 2 && ri == BLOCKED_RECEIVER && a <= held {
                    ctx.count("F9.token_refuses_receiver");
                    Err("token-refuses-this-receiver")
                } else if a > held {
                    if a == held + 1 { ctx.count("probe.pay_out_one_more_than_held"); }
                    Err("more-than-the-service-holds")
                } else if a == 0 {
                    Ok(false)
                } else {
                    if a == held { ctx.count("probe.pay_out_exactly_what_is_held"); }
                    Ok(true)
                };
                let sh = hash_of(&self.m);
                let label = if !ok { "unauthorised" } else { match expect { Ok(true) => "accept", Ok(false) => "either", Err(w) => w } };
                ctx.judged(&["C14", "C06"], sh, func, label);
                let res = self.sim.call(&gas, func, args, &entries, *abort);
                ctx.note(|| format!("{} token{} amount={} receiver=p{} auth={:?} expect={} -> {}", func, t, a, ri, auth, label, res.out.err_text()));
                if !after_call(ctx, &res, func, &["C14"]) {
                    return;
                }
                ctx.count(&format!("op.{}.{}.{}", func, label, res.out.class()));
                if !ok {
                    must_fail(ctx, &res, &["C06", "C14"], &format!("{}/accepted-without-collector-auth:{}", func, auth.name()), "not authorised by the gas collector");
                    return;
                }
                match expect {
                    Err(why) => {
                        must_fail(ctx, &res, &["C14"], &format!("{}/accepted:{}", func, why), why);
                    }
                    Ok(strict) => {
                        if res.out.is_err() {
                            if strict {
                                ctx.check(false, &["C14"], &format!("{}/valid-payout-refused", func), || format!("{} of {} (held {}) refused: {}", func, a, held, res.out.err_text()));
                            }
                            return;
                        }
                        self.m.held[t] -= a;
                        self.m.paid_out[t] += a;
                        *self.m.bal[t].entry(ri).or_insert(0) += a;
                        let exp_ev = if is_collect {
                            Ev { contract: addr_bytes(&gas), topics: vec![sym("gas_collected"), saddr(&self.p[col]), token_sc(&self.tokens[t], a)], data: ScVal::Void }
                        } else {
                            Ev { contract: addr_bytes(&gas), topics: vec![sym("gas_refunded"), sstr(&id), saddr(&self.p[ri]), token_sc(&self.tokens[t], a)], data: ScVal::Void }
                        };
                        let got = self.gas_events(&res.events);
                        ctx.check(crate::judge::events_match(&got.iter().map(|e| (*e).clone()).collect::<Vec<_>>(), &[exp_ev.clone()], &["gas_paid", "gas_added", "gas_collected", "gas_refunded"]), &["C14"], &format!("{}/wrong-event", func), || format!("expected one {:?}, got {:?}", exp_ev, got));
                    }
                }
            }
            SOp::TransferOwnership { to, auth, abort } => {
                let ti = pi(*to);
                let o = self.m.owner;
                let args: SVec<Val> = (self.p[ti].clone(),).into_val(&env);
                let alt: SVec<Val> = (self.p[(ti + 1) % NP].clone(),).into_val(&env);
                let c = AuthCtx { right: o, former: self.m.former_owner, other_role: if self.m.collector != o { self.m.collector } else { STRANGER }, counterparty: ti, owner: o, stranger: STRANGER };
                if auth.is_fault() {
                    ctx.count(&format!("F7.transfer_ownership.{}", auth.name()));
                }
                let (entries, ok) = match resolve_auth(&mut self.sim, *auth, &c) {
                    None => (vec![], false),
                    Some((w, other)) => (vec![AuthEntry { who: self.p[w].clone(), root: AuthNode::new(&gas, "transfer_ownership", if other { alt } else { args.clone() }) }], w == o && !other),
                };
                ctx.judged(&["C06"], hash_of(&self.m), "transfer_ownership", if ok { "accept" } else { "unauthorised" });
                let res = self.sim.call(&gas, "transfer_ownership", args, &entries, *abort);
                if !after_call(ctx, &res, "transfer_ownership", &["C06"]) {
                    return;
                }
                ctx.count(&format!("op.transfer_ownership.{}.{}", if ok { "accept" } else { "unauthorised" }, res.out.class()));
                if !ok {
                    must_fail(ctx, &res, &["C06"], &format!("transfer_ownership/accepted-without-holder-auth:{}", auth.name()), "not the owner");
                    return;
                }
                if !ctx.check(res.out.is_ok(), &["C06"], "role-transfer/holder-refused", || res.out.err_text()) {
                    return;
                }
                let exp = vec![Ev { contract: addr_bytes(&gas), topics: vec![sym("ownership_transferred"), saddr(&self.p[o]), saddr(&self.p[ti])], data: svec(vec![]) }];
                ctx.check(crate::judge::events_match(&res.events, &exp, &[]), &["C06"], "role-transfer/wrong-event", || format!("{:?}", res.events));
                if ti != o {
                    self.m.former_owner = Some(o);
                }
                self.m.owner = ti;
            }
            SOp::Advance { dseq } => {
                crate::common::advance_ledgers(&self.sim, ctx, *dseq);
            }
            SOp::ApproveService { holder, token, amount } => {
                let (hi, t) = (pi(*holder), *token as usize % NTOK);
                let exp = self.sim.seq() + 5000;
                self.sim.setup_all_auths();
                let r = self.sim.query(&self.tokens[t].clone(), "approve", (self.p[hi].clone(), gas.clone(), *amount as i128, exp).into_val(&env));
                self.sim.set_auth(&[]);
                let _ = self.sim.drain_events();
                if r.is_err() {
                    ctx.harness(format!("token {} refused an approve", t));
                    return;
                }
                ctx.count("probe.holder_pre_approved_the_gas_service");
            }
            SOp::Resubmit { .. } => {}
        }
    }

    /// A pay-out whose receiver is the gas service itself (authorised by the collector).  Paying oneself
    /// moves nothing, and the statement's balance equation has no reading for a "refund" that leaves the
    /// balance where it was — so a covered amount may be accepted or refused; but a negative amount, or
    /// more than the service holds, is refused for this receiver as for any other.
    fn pay_out_to_self(&mut self, ctx: &mut Ctx, is_collect: bool, t: usize, amount: &SAmt, abort: Option<u16>) {
        let env = self.sim.env.clone();
        let gas = self.gas.clone();
        let func: &'static str = if is_collect { "collect_fees" } else { "refund" };
        let a = match amount {
            SAmt::Zero => 0,
            SAmt::Neg => -1,
            SAmt::Lit(v) => *v as i128,
            SAmt::Held | SAmt::Balance => self.m.held[t],
            SAmt::HeldPlus1 | SAmt::BalancePlus1 => self.m.held[t] + 1,
            SAmt::Wide(k) => WIDE[*k as usize % WIDE.len()],
        };
        let tok = Token { address: self.tokens[t].clone(), amount: a };
        let args: SVec<Val> = if is_collect { (gas.clone(), tok).into_val(&env) } else { (SStr::from_str(&env, "0xaa-0"), gas.clone(), tok).into_val(&env) };
        let col = self.m.collector;
        let entries = vec![AuthEntry { who: self.p[col].clone(), root: AuthNode::new(&gas, func, args.clone()) }];
        ctx.count("probe.pay_out_with_the_service_itself_as_receiver");
        let must_refuse = a < 0 || a > self.m.held[t] || (is_collect && a == 0);
        ctx.judged(&["C14"], hash_of(&self.m), func, if must_refuse { "self-receiver-uncovered" } else { "self-receiver-either" });
        let res = self.sim.call(&gas, func, args, &entries, abort);
        ctx.note(|| format!("{} token{} amount={} receiver=the service itself -> {}", func, t, a, res.out.err_text()));
        if !after_call(ctx, &res, func, &["C14"]) {
            return;
        }
        ctx.count(&format!("op.{}.self-receiver.{}", func, res.out.class()));
        if must_refuse {
            must_fail(ctx, &res, &["C14"], &format!("{}/accepted:{}", func, if a < 0 { "negative-amount" } else if a == 0 { "non-positive-amount" } else { "more-than-the-service-holds" }), "uncovered pay-out with the service itself as receiver");
        }
        // accepted or refused, nothing moved: the balance invariants that follow every step see to that
    }

    /// the gas service's own address named as spender by an outside caller: nobody can
    /// authorise for it, so the payment must be refused
    fn self_spender(&mut self, ctx: &mut Ctx, t: usize, a: i128, abort: Option<u16>, sender_is_self: bool, add: bool) {
        let env = self.sim.env.clone();
        let gas = self.gas.clone();
        let a = if a <= 0 { 1 } else { a.min(self.m.held[t].max(1)) };
        let tok = Token { address: self.tokens[t].clone(), amount: a };
        let sender = if sender_is_self { gas.clone() } else { self.p[2].clone() };
        let func: &'static str = if add { "add_gas" } else { "pay_gas" };
        let args: SVec<Val> = if add {
            (sender, SStr::from_str(&env, "0xaa-0"), gas.clone(), tok).into_val(&env)
        } else {
            (sender, SStr::from_str(&env, "ethereum"), SStr::from_str(&env, "0xdest"), Bytes::from_slice(&env, &[1, 2, 3]), gas.clone(), tok, Bytes::new(&env)).into_val(&env)
        };
        ctx.count("probe.contract_address_named_as_spender_from_outside");
        if sender_is_self {
            ctx.count("probe.service_named_as_both_sender_and_spender");
        }
        ctx.judged(&["C07", "C14"], hash_of(&self.m), func, if sender_is_self { "self-spender-and-sender" } else { "self-spender" });
        let res = self.sim.call(&gas, func, args, &[], abort);
        if !after_call(ctx, &res, func, &["C14"]) {
            return;
        }
        ctx.count(&format!("op.{}.self-spender.{}", func, res.out.class()));
        must_fail(ctx, &res, &["C07", "C14"], &format!("{}/accepted-with-service-as-unauthorised-spender", func), "the service's own address was named as spender by an outside caller");
    }

    #[allow(clippy::too_many_arguments)]
    fn spender_auth(&mut self, ctx: &mut Ctx, func: &'static str, auth: AuthVar, si: usize, args: &SVec<Val>, xfer: &SVec<Val>, t: usize, a: i128) -> (Vec<AuthEntry>, bool) {
        let env = self.sim.env.clone();
        if auth.is_fault() {
            ctx.count(&format!("F7.{}.{}", func, auth.name()));
        }
        let c = AuthCtx { right: si, former: None, other_role: self.m.collector, counterparty: self.m.collector, owner: self.m.owner, stranger: STRANGER };
        match resolve_auth(&mut self.sim, auth, &c) {
            None => (vec![], false),
            Some((w, other)) => {
                let mut root = AuthNode::new(&self.gas, func, args.clone());
                let full = match auth {
                    AuthVar::RootOnly => false,
                    _ => {
                        let x: SVec<Val> = if other { (self.p[si].clone(), self.gas.clone(), a.wrapping_add(1)).into_val(&env) } else { xfer.clone() };
                        root = root.with(AuthNode::new(&self.tokens[t], "transfer", x));
                        !other
                    }
                };
                (vec![AuthEntry { who: self.p[w].clone(), root }], w == si && full)
            }
        }
    }

    #[allow(clippy::too_many_arguments)]
    fn judge_in(&mut self, ctx: &mut Ctx, func: &'static str, args: SVec<Val>, entries: Vec<AuthEntry>, abort: Option<u16>, ok: bool, expect: Option<&'static str>, t: usize, si: usize, a: i128, exp_ev: Ev) {
        let sh = hash_of(&self.m);
        let label = if !ok { "unauthorised" } else { expect.unwrap_or("accept") };
        ctx.judged(&["C14", "C07"], sh, func, label);
        let gas = self.gas.clone();
        let res = self.sim.call(&gas, func, args, &entries, abort);
        ctx.note(|| format!("{} token{} amount={} spender=p{} expect={} -> {}", func, t, a, si, label, res.out.err_text()));
        if !after_call(ctx, &res, func, &["C14"]) {
            return;
        }
        ctx.count(&format!("op.{}.{}.{}", func, label, res.out.class()));
        if !ok {
            must_fail(ctx, &res, &["C07", "C14"], &format!("{}/accepted-without-spenders-auth", func), "spender did not authorise the payment");
            return;
        }
        if let Some(why) = expect {
            must_fail(ctx, &res, &["C14"], &format!("{}/accepted:{}", func, why), why);
            return;
        }
        if !ctx.check(res.out.is_ok(), &["C14"], &format!("{}/valid-payment-refused", func), || res.out.err_text()) {
            return;
        }
        *self.m.bal[t].entry(si).or_insert(0) -= a;
        self.m.held[t] += a;
        self.m.paid_in[t] += a;
        let got = self.gas_events(&res.events);
        ctx.check(crate::judge::events_match(&got.iter().map(|e| (*e).clone()).collect::<Vec<_>>(), &[exp_ev.clone()], &["gas_paid", "gas_added", "gas_collected", "gas_refunded"]), &["C14"], &format!("{}/wrong-event", func), || format!("expected one {:?}, got {:?}", exp_ev, got));
    }

    pub fn invariants(&mut self, ctx: &mut Ctx) {
        let env = self.sim.env.clone();
        for t in 0..NTOK {
            let tok = self.tokens[t].clone();
            let b = self.sim.query(&tok, "balance", (self.gas.clone(),).into_val(&env));
            let bv = b.val().and_then(|v| i128::try_from_val(&env, &v).ok());
            let want = self.m.paid_in[t] - self.m.paid_out[t];
            if !ctx.check(bv == Some(want) && want >= 0 && want == self.m.held[t], &["C14"], "invariant/service-balance-equation", || {
                format!("token {}: service balance {:?}, paid in {} - paid out {} = {}", t, bv, self.m.paid_in[t], self.m.paid_out[t], want)
            }) {
                return;
            }
            for i in 0..NP {
                let b = self.sim.query(&tok, "balance", (self.p[i].clone(),).into_val(&env));
                let bv = b.val().and_then(|v| i128::try_from_val(&env, &v).ok());
                let w = *self.m.bal[t].get(&i).unwrap_or(&0);
                if !ctx.check(bv == Some(w), &["C14", "C07"], "invariant/user-balance-differs", || format!("token {} balance(p{}) = {:?}, model {}", t, i, bv, w)) {
                    return;
                }
            }
        }
        let o = self.sim.query(&self.gas.clone(), "owner", SVec::new(&env));
        let ov = o.val().and_then(|v| Address::try_from_val(&env, &v).ok());
        if !ctx.check(ov.as_ref() == Some(&self.p[self.m.owner]), &["C06"], "invariant/owner-differs", || "owner() differs".into()) {
            return;
        }
        let c = self.sim.query(&self.gas.clone(), "gas_collector", SVec::new(&env));
        let cv = c.val().and_then(|v| Address::try_from_val(&env, &v).ok());
        ctx.check(cv.as_ref() == Some(&self.p[self.m.collector]), &["C06", "C14"], "invariant/gas-collector-differs", || {
            "gas_collector() is no longer the address named at construction (the role has no transfer entry point)".into()
        });
    }
}

impl World for WorldS {
    const NAME: &'static str = "S";
    type Cfg = SCfg;
    type Op = SOp;

    fn components() -> Value {
        json!({
            "real": ["axelar-gas-service (native, /repo)", "interchain-token as second gas token (native, /repo)", "Stellar Asset Contract (host built-in)", "soroban-env-host 22.1"],
            "stub": ["collector, owner, spenders, receivers: generated addresses with mock account contracts"]
        })
    }

    fn generate(rng: &mut Rng, p: GenParams) -> (SCfg, Vec<SOp>) {
        let f_auth = p.faults && rng.chance(3, 4);
        let f_abort = p.faults && rng.chance(1, 2);
        let f_dup = p.faults && rng.chance(3, 4);
        let cfg = SCfg { initial: *rng.pick(&[0i64, 10, 1000, 1_000_000]), collector_is_owner: rng.chance(1, 4) };
        let w: [u32; 6] = match p.focus {
            "C06" => [8, 4, 20, 20, 25, if f_dup { 8 } else { 0 }],
            "C07" => [35, 30, 6, 6, 2, if f_dup { 8 } else { 0 }],
            _ => [28, 18, 20, 18, 3, if f_dup { 8 } else { 0 }],
        };
        let n = rng.range(15, if p.thorough { 70 } else { 50 }) as usize;
        let mut ops = vec![];
        for _ in 0..n {
            let fault = f_auth && rng.chance(1, if p.focus == "C14" { 5 } else { 2 });
            let abort = opt_abort(rng, f_abort, 120);
            let inamt = |rng: &mut Rng| match rng.weighted(&[2, 2, 10, 3, 3, 2]) { 0 => SAmt::Zero, 1 => SAmt::Neg, 2 => SAmt::Lit(rng.range(1, 500) as i64), 3 => SAmt::Balance, 4 => SAmt::BalancePlus1, _ => SAmt::Wide(rng.below(7) as u8) };
            let outamt = |rng: &mut Rng| match rng.weighted(&[2, 2, 8, 4, 4, 2]) { 0 => SAmt::Zero, 1 => SAmt::Neg, 2 => SAmt::Lit(rng.range(1, 300) as i64), 3 => SAmt::Held, 4 => SAmt::HeldPlus1, _ => SAmt::Wide(rng.below(7) as u8) };
            let op = match rng.weighted(&w) {
                0 => SOp::PayGas {
                    spender: if rng.chance(1, 15) { 200 } else { rng.range(2, 3) as u8 }, token: rng.below(3) as u8, amount: inamt(rng), sender: rng.below(NP as u64) as u8,
                    chain: StrSpec::gen(rng), addr: StrSpec::gen(rng), payload: PayloadSpec::gen(rng, false), meta: rng.below(4) as u8,
                    auth: if fault { *rng.pick(&[AuthVar::Counterparty, AuthVar::Owner, AuthVar::Stranger, AuthVar::Nobody, AuthVar::RightOtherArgs, AuthVar::RootOnly]) } else if f_auth && rng.chance(1, 6) { AuthVar::Everyone } else { AuthVar::Right }, abort,
                },
                1 => SOp::AddGas {
                    spender: rng.range(2, 3) as u8, token: rng.below(3) as u8, amount: inamt(rng), sender: rng.below(NP as u64) as u8, msg_id: StrSpec::gen(rng),
                    auth: if fault { *rng.pick(&[AuthVar::Counterparty, AuthVar::Owner, AuthVar::Stranger, AuthVar::Nobody, AuthVar::RightOtherArgs, AuthVar::RootOnly]) } else if f_auth && rng.chance(1, 6) { AuthVar::Everyone } else { AuthVar::Right }, abort,
                },
                2 => SOp::Collect { receiver: *rng.pick(&[4u8, 5, 4, 5, 4, 5, 0, 1, 1, 2, 200]), token: rng.below(3) as u8, amount: outamt(rng), auth: if fault { *rng.pick(&[AuthVar::Counterparty, AuthVar::Owner, AuthVar::Stranger, AuthVar::Nobody, AuthVar::RightOtherArgs]) } else if f_auth && rng.chance(1, 6) { AuthVar::Everyone } else { AuthVar::Right }, abort },
                3 => SOp::Refund { receiver: *rng.pick(&[2u8, 3, 4, 5, 2, 3, 4, 5, 0, 1, 200]), token: rng.below(3) as u8, amount: outamt(rng), msg_id: StrSpec::gen(rng), auth: if fault { *rng.pick(&[AuthVar::Counterparty, AuthVar::Owner, AuthVar::Stranger, AuthVar::Nobody, AuthVar::RightOtherArgs]) } else if f_auth && rng.chance(1, 6) { AuthVar::Everyone } else { AuthVar::Right }, abort },
                4 => SOp::TransferOwnership { to: rng.below(NP as u64) as u8, auth: if fault || rng.chance(1, 3) { *rng.pick(&[AuthVar::Former, AuthVar::OtherRole, AuthVar::Counterparty, AuthVar::Stranger, AuthVar::Nobody, AuthVar::RightOtherArgs]) } else { AuthVar::Right }, abort },
                _ => SOp::Resubmit { k: rng.below(64) as u16 },
            };
            ops.push(op);
            if rng.chance(1, 15) {
                ops.push(SOp::ApproveService { holder: rng.range(2, 3) as u8, token: rng.below(3) as u8, amount: *rng.pick(&[1u16, 100, 1000, 60_000]) });
            }
            if rng.chance(1, 12) {
                ops.push(SOp::Advance { dseq: *rng.pick(&[1u32, 17, 100, 20_000, 1_100_000]) });
            }
        }
        (cfg, ops)
    }

    fn execute(cfg: &SCfg, ops: &[SOp], ctx: &mut Ctx) {
        let mut sim = Sim::new(1_700_000_000, 10);
        let env = sim.env.clone();
        let p: Vec<Address> = (0..NP).map(|_| Address::generate(&env)).collect();
        sim.setup_all_auths();
        let collector = if cfg.collector_is_owner { 0 } else { 1 };
        let gas = env.register(AxelarGasService, (&p[0], &p[collector]));
        let probe = env.register(crate::harness::probe_token::ProbeToken, (SStr::from_str(&env, "Probe"), SStr::from_str(&env, "PRB"), 7u32));
        let _: () = env.invoke_contract(&probe, &soroban_sdk::Symbol::new(&env, "set_blocked"), (p[BLOCKED_RECEIVER].clone(), true).into_val(&env));
        let sac = env.register_stellar_asset_contract_v2(Address::generate(&env)).address();
        let it = env.register(
            InterchainToken,
            (p[0].clone(), None::<Address>, BytesN::from_array(&env, &[3u8; 32]), TokenMetadata { decimal: 6, name: SStr::from_str(&env, "Gas"), symbol: SStr::from_str(&env, "GAS") }),
        );
        let mut m = SModel { owner: 0, collector, ..Default::default() };
        for u in 2..4usize {
            soroban_sdk::token::StellarAssetClient::new(&env, &sac).mint(&p[u], &(cfg.initial as i128));
            soroban_sdk::token::StellarAssetClient::new(&env, &it).mint(&p[u], &(cfg.initial as i128 * 2));
            m.bal[0].insert(u, cfg.initial as i128);
            m.bal[1].insert(u, cfg.initial as i128 * 2);
            let _: () = env.invoke_contract(&probe, &soroban_sdk::Symbol::new(&env, "give"), (p[u].clone(), cfg.initial as i128).into_val(&env));
            m.bal[2].insert(u, cfg.initial as i128);
        }
        sim.end_setup();
        let mut ex = SExec { sim, gas, tokens: [sac, it, probe], p, m, history: vec![] };
        ex.invariants(ctx);
        for (i, op) in ops.iter().enumerate() {
            if ctx.stopped() {
                break;
            }
            ctx.step = i;
            ex.sim.permissive_next = false;
            let eff = match op {
                SOp::Resubmit { k } => {
                    if ex.history.is_empty() {
                        ctx.end_step();
                        continue;
                    }
                    ctx.count("F1.resubmit");
                    ex.history[*k as usize % ex.history.len()].clone()
                }
                o => o.clone(),
            };
            ctx.trace_str(eff.kind());
            ex.run_op(ctx, &eff);
            if i % 3 == 1 && !ctx.stopped() {
                let mut addrs = ex.p.clone();
                addrs.push(ex.gas.clone());
                let g = ex.gas.clone();
                crate::surface::probe_unlisted(ctx, &mut ex.sim, &g, "axelar-gas-service", &addrs, &["C14", "C07", "C06"], &["C14", "C07", "C06"]);
            }
            if !matches!(op, SOp::Resubmit { .. } | SOp::Advance { .. } | SOp::ApproveService { .. }) {
                ex.history.push(op.clone());
            }
            if !ctx.stopped() {
                ex.invariants(ctx);
            }
            ctx.trace_u64(hash_of(&ex.m));
            ctx.trace_u64(ex.sim.digest().0);
            ctx.end_step();
        }
        // quiescent tail: the collector can drain exactly what is held
        if !ctx.stopped() {
            ctx.step = ops.len();
            for t in 0..NTOK as u8 {
                if ex.m.held[t as usize] > 0 && !ctx.stopped() {
                    ex.run_op(ctx, &SOp::Collect { receiver: 4, token: t, amount: SAmt::Held, auth: AuthVar::Right, abort: None });
                }
            }
            if !ctx.stopped() {
                ex.invariants(ctx);
            }
            ctx.end_step();
        }
        for (k, v) in std::mem::take(&mut ex.sim.counters) {
            ctx.count_n(&k, v);
        }
    }

    fn simplify(op: &SOp) -> Vec<SOp> {
        let mut o = op.clone();
        match &mut o {
            SOp::PayGas { abort, .. } | SOp::AddGas { abort, .. } | SOp::Collect { abort, .. } | SOp::Refund { abort, .. } | SOp::TransferOwnership { abort, .. } => {
                if abort.is_some() {
                    *abort = None;
                    return vec![o];
                }
            }
            _ => {}
        }
        vec![]
    }
}
