//! World I executor, part 1: deployment of gateway + gas service + ITS +
//! tokens + destination app, the reference model, observation helpers.

use super::g_exec::{mset_to_val, proof_to_val, BuiltProof};
use super::i_types::*;
use crate::engine::Ctx;
use crate::harness::exec_app::ExecApp;
use crate::harness::probe_token::ProbeToken;
use crate::host::{addr_bytes, Sim};
use crate::oracle::*;
use crate::rng::hash_of;
use axelar_gas_service::AxelarGasService;
use axelar_gateway::types::Message;
use axelar_gateway::AxelarGateway;
use interchain_token_service::InterchainTokenService;
use soroban_sdk::testutils::Address as _;
use soroban_sdk::{Address, BytesN, IntoVal, String as SStr, TryFromVal, Val, Vec as SVec};
use std::collections::{BTreeMap, BTreeSet};

pub const TOKEN_WASM: &[u8] = include_bytes!("/repo/contracts/interchain-token-service/tests/testdata/interchain_token.wasm");

pub const NP: usize = 7; // 0 owner, 1 collector, 2..=5 users, 6 stranger
pub const H_ITS: usize = 7;
pub const H_GAS: usize = 8;
pub const H_APP: usize = 9;
pub const NH: usize = 10;
pub const STRANGER: usize = 6;
/// holder the probe tokens refuse to credit
pub const BLOCKED_USER: usize = 5;

#[derive(Clone, Copy, Debug, PartialEq, Eq, Hash)]
pub enum TokKind {
    Sac,
    Probe,
    Wasm,
}

#[derive(Clone, Debug, Hash)]
pub struct Tok {
    pub id_bytes: [u8; 32],
    pub kind: TokKind,
    pub name: String,
    pub symbol: String,
    pub decimals: u32,
    pub bal: BTreeMap<usize, i128>,
    pub minters: BTreeSet<usize>,
    pub token_id: Option<[u8; 32]>,
    pub locked: i128,
    pub released: i128,
    pub supply: i128,
    /// a probe token that answers metadata reads inconsistently (harness::probe_token::set_flaky)
    pub flaky: bool,
    /// a probe token that answers a metadata getter with a value of another type
    pub weird: bool,
}

#[derive(Clone, Debug, Hash, PartialEq, Eq)]
pub enum GStat {
    Approved(MMsg),
    Executed,
}

#[derive(Clone, Debug, Hash, Default)]
pub struct IModel {
    pub owner: usize,
    pub former_owner: Option<usize>,
    pub trusted: BTreeSet<String>,
    pub ever_trusted: BTreeSet<String>,
    /// token id -> (index into toks, native?)
    pub registry: BTreeMap<[u8; 32], (usize, bool)>,
    pub reg_order: Vec<[u8; 32]>,
    /// canonical registrations of addresses that are no token at all (an account, a contract
    /// without the token interface): the id is taken all the same
    pub nontoken: BTreeMap<[u8; 32], u8>,
    pub gw: BTreeMap<(String, String), GStat>,
    pub app_count: u32,
    pub effects_applied: BTreeMap<(String, String), u32>,
}

pub struct IExec<'a> {
    pub sim: Sim,
    pub cfg: &'a ICfg,
    pub keys: KeyPool,
    pub set: MSet,
    pub domain: [u8; 32],
    pub h: Vec<Address>,
    pub gateway: Address,
    pub toks: Vec<Tok>,
    pub tok_addr: Vec<Address>,
    pub m: IModel,
    pub history: Vec<IOp>,
    pub touched: BTreeSet<(usize, usize)>,
    pub wasm_hash: BytesN<32>,
}

impl<'a> IExec<'a> {
    pub fn its(&self) -> Address {
        self.h[H_ITS].clone()
    }
    pub fn gas(&self) -> Address {
        self.h[H_GAS].clone()
    }

    pub fn new(cfg: &'a ICfg, ctx: &mut Ctx) -> Option<IExec<'a>> {
        let mut sim = Sim::new(1_700_000_000, 50);
        let env = sim.env.clone();
        let keys = KeyPool::new(4);
        let mut h: Vec<Address> = (0..NP).map(|_| Address::generate(&env)).collect();
        sim.setup_all_auths();
        // verifier set
        let n = (cfg.n_signers as usize).clamp(1, 4);
        let ids: Vec<u8> = keys.sorted_ids().into_iter().take(n).collect();
        let mut sorted = ids.clone();
        sorted.sort_by_key(|i| keys.pubs[*i as usize]);
        let set = MSet {
            signers: sorted.iter().map(|i| MSigner { key: keys.pubs[*i as usize], weight: 1, key_id: Some(*i) }).collect(),
            threshold: n as u128,
            nonce: [1u8; 32],
        };
        let domain = keccak(b"axsim world I domain");
        let mut init = SVec::new(&env);
        init.push_back(mset_to_val(&env, &set));
        let gateway = env.register(AxelarGateway, (&h[0], &h[0], BytesN::from_array(&env, &domain), 0u64, 1u64, init));
        let gas = env.register(AxelarGasService, (&h[0], &h[1]));
        let wasm_hash = env.deployer().upload_contract_wasm(TOKEN_WASM);
        let its = env.register(
            InterchainTokenService,
            (&h[0], &gateway, &gas, SStr::from_str(&env, &cfg.hub_address), SStr::from_str(&env, &cfg.chain_name), wasm_hash.clone()),
        );
        let app = env.register(ExecApp, (&its,));
        h.push(its.clone());
        h.push(gas);
        h.push(app);
        // tokens
        let mut toks = vec![];
        let mut tok_addr = vec![];
        for _ in 0..2 {
            let a = env.register_stellar_asset_contract_v2(Address::generate(&env)).address();
            let tc = soroban_sdk::token::TokenClient::new(&env, &a);
            let (name, symbol, decimals) = (tc.name(), tc.symbol(), tc.decimals());
            let mut bal = BTreeMap::new();
            for u in 2..6usize {
                soroban_sdk::token::StellarAssetClient::new(&env, &a).mint(&h[u], &10_000i128);
                bal.insert(u, 10_000i128);
            }
            toks.push(Tok {
                id_bytes: addr_bytes(&a),
                kind: TokKind::Sac,
                name: sstr_to_string(&name),
                symbol: sstr_to_string(&symbol),
                decimals,
                bal,
                minters: BTreeSet::new(),
                token_id: None,
                locked: 0,
                released: 0,
                supply: 40_000,
                flaky: false,
                weird: false,
            });
            tok_addr.push(a);
        }
        for pm in cfg.probe_meta.iter() {
            let name = NAMES[pm.name as usize % NAMES.len()];
            let symbol = SYMS[pm.symbol as usize % SYMS.len()];
            let decimals = DECIMALS[pm.decimals as usize % DECIMALS.len()];
            let a = env.register(ProbeToken, (SStr::from_str(&env, name), SStr::from_str(&env, symbol), decimals));
            let mut bal = BTreeMap::new();
            for u in 2..6usize {
                let _: () = env.invoke_contract(&a, &soroban_sdk::Symbol::new(&env, "give"), (h[u].clone(), 1000i128).into_val(&env));
                bal.insert(u, 1000i128);
            }
            // the probe tokens refuse to credit user 5 (a receiver-dependent token failure)
            let _: () = env.invoke_contract(&a, &soroban_sdk::Symbol::new(&env, "set_blocked"), (h[BLOCKED_USER].clone(), true).into_val(&env));
            toks.push(Tok {
                id_bytes: addr_bytes(&a),
                kind: TokKind::Probe,
                name: name.to_string(),
                symbol: symbol.to_string(),
                decimals,
                bal,
                minters: BTreeSet::new(),
                token_id: None,
                locked: 0,
                released: 0,
                supply: 4000,
                flaky: false,
                weird: false,
            });
            tok_addr.push(a);
        }
        let mut m = IModel { owner: 0, ..Default::default() };
        for c in &cfg.initial_trusted {
            let name = CHAINS[*c as usize % CHAINS.len()];
            let r: Result<Result<(), _>, Result<soroban_sdk::Error, _>> = env.try_invoke_contract::<(), soroban_sdk::Error>(
                &its,
                &soroban_sdk::Symbol::new(&env, "set_trusted_chain"),
                (SStr::from_str(&env, name),).into_val(&env),
            );
            if r.is_ok() {
                m.trusted.insert(name.to_string());
                m.ever_trusted.insert(name.to_string());
            }
        }
        sim.end_setup();
        let _ = ctx;
        Some(IExec { sim, cfg, keys, set, domain, h, gateway, toks, tok_addr, m, history: vec![], touched: BTreeSet::new(), wasm_hash })
    }

    pub fn state_hash(&self) -> u64 {
        hash_of(&(&self.m, &self.toks))
    }

    pub fn holder_index(&self, a: &Address) -> Option<usize> {
        self.h.iter().position(|x| x == a)
    }

    pub fn bal(&self, t: usize, holder: usize) -> i128 {
        *self.toks[t].bal.get(&holder).unwrap_or(&0)
    }
    pub fn add_bal(&mut self, t: usize, holder: usize, d: i128) {
        let e = self.toks[t].bal.entry(holder).or_insert(0);
        *e = e.wrapping_add(d);
        self.touched.insert((t, holder));
    }

    pub fn chain(&self, c: u8) -> &'static str {
        CHAINS[c as usize % CHAINS.len()]
    }

    pub fn resolve_tok(&self, r: &TokRef) -> Result<([u8; 32], usize, bool), [u8; 32]> {
        match r {
            TokRef::Registered(n) if !self.m.reg_order.is_empty() => {
                let id = self.m.reg_order[*n as usize % self.m.reg_order.len()];
                let (t, native) = self.m.registry[&id];
                Ok((id, t, native))
            }
            TokRef::Registered(n) => Err(keccak(&[b"unknown-token".as_ref(), &[*n]].concat())),
            TokRef::Unknown(n) => Err(keccak(&[b"unknown-token".as_ref(), &[*n]].concat())),
        }
    }

    // ---------------------------------------------------------------- gateway side (stub relayer + verifiers)

    /// honest approval by the live verifier set; returns false on a harness problem
    pub fn gw_approve(&mut self, ctx: &mut Ctx, m: &MMsg, dest: &Address) -> bool {
        let env = self.sim.env.clone();
        let data_hash = approve_data_hash(std::slice::from_ref(m));
        let digest = signing_digest(&self.domain, &self.set.hash(), &data_hash);
        let sigs: Vec<Option<[u8; 64]>> = self.set.signers.iter().map(|s| Some(self.keys.sign(s.key_id.unwrap(), &digest))).collect();
        let built = BuiltProof { declared: self.set.clone(), sigs };
        let mut mv: SVec<Message> = SVec::new(&env);
        mv.push_back(Message {
            source_chain: SStr::from_str(&env, &m.source_chain),
            message_id: SStr::from_str(&env, &m.message_id),
            source_address: SStr::from_str(&env, &m.source_address),
            contract_address: dest.clone(),
            payload_hash: BytesN::from_array(&env, &m.payload_hash),
        });
        let args: SVec<Val> = (mv, proof_to_val(&env, &built)).into_val(&env);
        let gw = self.gateway.clone();
        let res = self.sim.call(&gw, "approve_messages", args, &[], None);
        if res.out.is_err() {
            ctx.harness(format!("stub relayer: honest approval refused by the gateway: {}", res.out.err_text()));
            return false;
        }
        let key = (m.source_chain.clone(), m.message_id.clone());
        self.m.gw.entry(key).or_insert_with(|| GStat::Approved(m.clone()));
        true
    }

    // ---------------------------------------------------------------- observation

    pub fn read_balance(&mut self, t: usize, holder: usize) -> Option<i128> {
        let env = self.sim.env.clone();
        let r = self.sim.query(&self.tok_addr[t].clone(), "balance", (self.h[holder].clone(),).into_val(&env));
        r.val().and_then(|v| i128::try_from_val(&env, &v).ok())
    }

    /// balances of the pairs touched since the last call (or of all pairs)
    pub fn check_balances(&mut self, ctx: &mut Ctx, all: bool) -> bool {
        let pairs: Vec<(usize, usize)> = if all {
            (0..self.toks.len()).flat_map(|t| (0..NH).map(move |h| (t, h))).collect()
        } else {
            self.touched.iter().copied().collect()
        };
        self.touched.clear();
        for (t, hd) in pairs {
            let got = self.read_balance(t, hd);
            let want = self.bal(t, hd);
            if !ctx.check(got == Some(want), &["C05", "C04", "C11", "C18"], "invariant/balance-differs", || {
                format!("token {} ({:?}) balance of holder {} is {:?}, ledger model says {}", t, self.toks[t].kind, hd, got, want)
            }) {
                return false;
            }
        }
        // custody equation for canonical tokens and supply equation for deployed ones (model-side)
        for (t, tk) in self.toks.iter().enumerate() {
            if tk.kind != TokKind::Wasm {
                let custody = self.bal(t, H_ITS);
                let want = tk.locked - tk.released;
                let registered = self.m.registry.values().any(|(x, native)| *x == t && !*native);
                if registered && !ctx.check(custody == want && want >= 0, &["C05"], "invariant/custody-equation", || {
                    format!("token {}: custody {} != locked {} - released {}", t, custody, tk.locked, tk.released)
                }) {
                    return false;
                }
            } else {
                let sum: i128 = tk.bal.values().fold(0i128, |a, b| a.wrapping_add(*b));
                if !ctx.check(sum == tk.supply, &["C05"], "invariant/supply-equation", || format!("token {}: holders sum {} != supply {}", t, sum, tk.supply)) {
                    return false;
                }
            }
        }
        true
    }

    /// registry is write-once; trusted chains, owner, gateway status as the model says
    pub fn invariants(&mut self, ctx: &mut Ctx) -> bool {
        let env = self.sim.env.clone();
        let its = self.its();
        let ids: Vec<([u8; 32], (usize, bool))> = self.m.registry.iter().map(|(k, v)| (*k, *v)).collect();
        for (id, (t, native)) in ids {
            let a = self.sim.query(&its, "token_address", (BytesN::from_array(&env, &id),).into_val(&env));
            let av = a.val().and_then(|v| Address::try_from_val(&env, &v).ok());
            let k = self.sim.query(&its, "token_manager_type", (BytesN::from_array(&env, &id),).into_val(&env));
            let kv = k.val().map(|v| self.sim.val_to_sc(&v));
            let want_kind = soroban_sdk::xdr::ScVal::U32(if native { 0 } else { 2 });
            if !ctx.check(av.as_ref() == Some(&self.tok_addr[t]) && kv == Some(want_kind.clone()), &["C11", "C05", "C18"], "invariant/registry-entry-changed", || {
                format!("token id {} no longer maps to its first (address, manager type): {:?} {:?}", hex::encode(id), av, kv)
            }) {
                return false;
            }
        }
        for c in CHAINS.iter() {
            let q = self.sim.query(&its, "is_trusted_chain", (SStr::from_str(&env, c),).into_val(&env));
            let qv = q.val().and_then(|v| bool::try_from(v).ok());
            if !ctx.check(qv == Some(self.m.trusted.contains(*c)), &["C06", "C04", "C05", "C18"], "invariant/trusted-chain-set-differs", || format!("is_trusted_chain({:?}) = {:?}", c, qv)) {
                return false;
            }
        }
        let o = self.sim.query(&its, "owner", SVec::new(&env));
        let ov = o.val().and_then(|v| Address::try_from_val(&env, &v).ok());
        if !ctx.check(ov.as_ref() == Some(&self.h[self.m.owner]), &["C06"], "invariant/owner-differs", || "ITS owner() differs from the transfer history".into()) {
            return false;
        }
        let n = self.sim.query(&self.h[H_APP].clone(), "count", SVec::new(&env));
        let nv = n.val().and_then(|v| u32::try_from_val(&env, &v).ok());
        ctx.check(nv == Some(self.m.app_count), &["C04", "C05"], "invariant/app-execution-count", || format!("destination app executed {:?} times, model {}", nv, self.m.app_count))
    }

    pub fn gw_status_check(&mut self, ctx: &mut Ctx, chain: &str, id: &str, props: &[&'static str]) -> bool {
        let env = self.sim.env.clone();
        let gw = self.gateway.clone();
        let st = self.m.gw.get(&(chain.to_string(), id.to_string())).cloned();
        let e = self.sim.query(&gw, "is_message_executed", (SStr::from_str(&env, chain), SStr::from_str(&env, id)).into_val(&env));
        let ev = e.val().and_then(|v| bool::try_from(v).ok());
        if !ctx.check(ev == Some(matches!(st, Some(GStat::Executed))), props, "gateway/executed-flag-differs", || format!("is_message_executed({:?},{:?}) = {:?}, model {:?}", chain, id, ev, st)) {
            return false;
        }
        if let Some(GStat::Approved(m)) = &st {
            let dest = Address::try_from_val(&env, &soroban_sdk::xdr::ScAddress::Contract(soroban_sdk::xdr::Hash(m.contract))).unwrap();
            let a = self.sim.query(
                &gw,
                "is_message_approved",
                (SStr::from_str(&env, chain), SStr::from_str(&env, id), SStr::from_str(&env, &m.source_address), dest, BytesN::from_array(&env, &m.payload_hash)).into_val(&env),
            );
            let av = a.val().and_then(|v| bool::try_from(v).ok());
            if !ctx.check(av == Some(true), props, "gateway/approval-record-lost", || format!("approval of ({:?},{:?}) no longer reads as approved", chain, id)) {
                return false;
            }
        }
        true
    }
}

pub fn sstr_to_string(s: &SStr) -> String {
    let mut b = vec![0u8; s.len() as usize];
    s.copy_into_slice(&mut b);
    String::from_utf8_lossy(&b).to_string()
}
