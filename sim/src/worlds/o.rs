//! World O: the operators contract with a probe target and a gas service whose
//! collector is the operators contract (C17, rows of C06/C07).

use crate::common::{opt_abort, resolve_auth, AuthCtx, AuthVar};
use crate::engine::{Ctx, GenParams, World};
use crate::harness::probe_target::ProbeTarget;
use crate::host::{addr_bytes, AuthEntry, AuthNode, Ev, Sim};
use crate::judge::{after_call, must_fail};
use crate::oracle::*;
use crate::rng::{hash_of, Rng};
use axelar_gas_service::AxelarGasService;
use axelar_operators::AxelarOperators;
use axelar_soroban_std::types::Token;
use serde::{Deserialize, Serialize};
use serde_json::{json, Value};
use soroban_sdk::testutils::Address as _;
use soroban_sdk::xdr::ScVal;
use soroban_sdk::{Address, Bytes, IntoVal, String as SStr, Symbol, TryFromVal, Val, Vec as SVec};
use std::collections::BTreeSet;

pub const NP: usize = 7; // 0 owner, 1..=4 operator candidates, 5 receiver, 6 stranger
const STRANGER: usize = 6;

#[derive(Serialize, Deserialize, Clone, Debug)]
pub struct OCfg {
    pub funds: i64,
}

#[derive(Serialize, Deserialize, Clone, Debug, PartialEq, Eq, Hash)]
pub enum VSpec {
    Unit,
    Bool(bool),
    U32(u32),
    I128(i64),
    Bytes(u8),
    Str(u8),
    Sym(u8),
    Addr(u8),
    Vec(u8),
}

#[derive(Serialize, Deserialize, Clone, Debug, PartialEq, Eq, Hash)]
pub enum Target {
    Echo { a: VSpec, b: VSpec, c: VSpec, ret: VSpec },
    Bump(i64),
    Noop,
    Fail,
    NeedsCallerAuth,
    /// `needs_caller_auth` naming somebody other than the operators contract
    NeedsOtherAuth,
    Collect { amount: i64 },
    NoSuchFunction,
    WrongArity,
}

#[derive(Serialize, Deserialize, Clone, Debug, PartialEq, Eq, Hash)]
pub enum OOp {
    Add { who: u8, auth: AuthVar, abort: Option<u16> },
    Remove { who: u8, auth: AuthVar, abort: Option<u16> },
    TransferOwnership { to: u8, auth: AuthVar, abort: Option<u16> },
    Execute { operator: u8, target: Target, auth: AuthVar, abort: Option<u16> },
    Advance { dseq: u32 },
    Resubmit { k: u16 },
}

impl OOp {
    fn kind(&self) -> &'static str {
        match self {
            OOp::Add { .. } => "add_operator",
            OOp::Remove { .. } => "remove_operator",
            OOp::TransferOwnership { .. } => "transfer_ownership",
            OOp::Execute { .. } => "execute",
            OOp::Advance { .. } => "advance",
            OOp::Resubmit { .. } => "resubmit",
        }
    }
}

#[derive(Clone, Debug, Hash, Default)]
pub struct OModel {
    pub owner: usize,
    pub former_owner: Option<usize>,
    pub ops: BTreeSet<usize>,
    pub ever_op: BTreeSet<usize>,
    pub log_len: u32,
    pub gas_held: i128,
    pub receiver_bal: i128,
}

pub struct OExec {
    pub sim: Sim,
    pub ops_c: Address,
    pub target: Address,
    pub gas: Address,
    pub token: Address,
    pub p: Vec<Address>,
    pub m: OModel,
    pub log: Vec<ScVal>,
    pub history: Vec<OOp>,
}

pub struct WorldO;

impl OExec {
    fn v(&self, s: &VSpec) -> Val {
        let env = &self.sim.env;
        match s {
            VSpec::Unit => ().into_val(env),
            VSpec::Bool(b) => (*b).into_val(env),
            VSpec::U32(n) => (*n).into_val(env),
            VSpec::I128(n) => ((*n as i128) << 70 | 5).into_val(env),
            VSpec::Bytes(n) => Bytes::from_slice(env, &vec![0x5au8; *n as usize]).into_val(env),
            VSpec::Str(n) => SStr::from_str(env, &"héllo-".repeat(*n as usize % 5)).into_val(env),
            VSpec::Sym(n) => Symbol::new(env, ["alpha", "collect_fees", "x", "a_rather_long_symbol_name_01"][*n as usize % 4]).into_val(env),
            VSpec::Addr(i) => self.p[*i as usize % NP].clone().into_val(env),
            VSpec::Vec(n) => {
                let mut v: SVec<Val> = SVec::new(env);
                for i in 0..(*n % 5) {
                    v.push_back((i as u32 * 7).into_val(env));
                }
                v.into_val(env)
            }
        }
    }

    pub fn run_op(&mut self, ctx: &mut Ctx, op: &OOp) {
        let env = self.sim.env.clone();
        let pi = |x: u8| x as usize % NP;
        let oc = self.ops_c.clone();
        match op {
            OOp::Add { who, auth, abort } | OOp::Remove { who, auth, abort } => {
                let add = matches!(op, OOp::Add { .. });
                let func: &'static str = if add { "add_operator" } else { "remove_operator" };
                // 100 + k: the account address carrying the same 32 bytes as operator candidate k
                let wi = if *who >= 100 { NP + (*who as usize - 100) % 4 } else { pi(*who) };
                if wi >= NP {
                    ctx.count("probe.account_twin_of_a_contract_address_named");
                }
                let o = self.m.owner;
                let args: SVec<Val> = (self.p[wi].clone(),).into_val(&env);
                let alt: SVec<Val> = (self.p[(wi + 1) % NP].clone(),).into_val(&env);
                let other = self.m.ops.iter().copied().find(|x| *x != o).unwrap_or(STRANGER);
                let c = AuthCtx { right: o, former: self.m.former_owner, other_role: other, counterparty: wi, owner: o, stranger: STRANGER };
                if auth.is_fault() {
                    ctx.count(&format!("F7.{}.{}", func, auth.name()));
                }
                let (entries, ok) = match resolve_auth(&mut self.sim, *auth, &c) {
                    None => (vec![], false),
                    Some((w, oth)) => (vec![AuthEntry { who: self.p[w].clone(), root: AuthNode::new(&oc, func, if oth { alt } else { args.clone() }) }], w == o && !oth),
                };
                let present = self.m.ops.contains(&wi);
                let expect: Option<&'static str> = if add && present {
                    ctx.count("F12.duplicate_operator");
                    Some("already-an-operator")
                } else if !add && !present {
                    ctx.count("F12.remove_absent_operator");
                    Some("not-an-operator")
                } else {
                    None
                };
                let label = if !ok { "unauthorised" } else { expect.unwrap_or("accept") };
                ctx.judged(&["C17", "C06"], hash_of(&self.m), func, label);
                let res = self.sim.call(&oc, func, args, &entries, *abort);
                ctx.note(|| format!("{} p{} auth={:?} expect={} -> {}", func, wi, auth, label, res.out.err_text()));
                if !after_call(ctx, &res, func, &["C17"]) {
                    return;
                }
                ctx.count(&format!("op.{}.{}.{}", func, label, res.out.class()));
                if !ok {
                    must_fail(ctx, &res, &["C06", "C17"], &format!("{}/accepted-without-owner-auth:{}", func, auth.name()), "not authorised by the owner");
                    return;
                }
                if let Some(why) = expect {
                    must_fail(ctx, &res, &["C17"], &format!("{}/accepted:{}", func, why), why);
                    return;
                }
                if !ctx.check(res.out.is_ok(), &["C17"], &format!("{}/valid-change-refused", func), || res.out.err_text()) {
                    return;
                }
                if add {
                    self.m.ops.insert(wi);
                    self.m.ever_op.insert(wi);
                } else {
                    self.m.ops.remove(&wi);
                }
                let exp = vec![Ev { contract: addr_bytes(&oc), topics: vec![sym(if add { "operator_added" } else { "operator_removed" }), saddr(&self.p[wi])], data: ScVal::Void }];
                ctx.check(crate::judge::events_match(&res.events, &exp, &[]), &["C17"], &format!("{}/wrong-event", func), || format!("{:?}", res.events));
            }
            OOp::TransferOwnership { to, auth, abort } => {
                let ti = pi(*to);
                let o = self.m.owner;
                let args: SVec<Val> = (self.p[ti].clone(),).into_val(&env);
                let alt: SVec<Val> = (self.p[(ti + 1) % NP].clone(),).into_val(&env);
                let other = self.m.ops.iter().copied().find(|x| *x != o).unwrap_or(STRANGER);
                let c = AuthCtx { right: o, former: self.m.former_owner, other_role: other, counterparty: ti, owner: o, stranger: STRANGER };
                if auth.is_fault() {
                    ctx.count(&format!("F7.transfer_ownership.{}", auth.name()));
                }
                let (entries, ok) = match resolve_auth(&mut self.sim, *auth, &c) {
                    None => (vec![], false),
                    Some((w, oth)) => (vec![AuthEntry { who: self.p[w].clone(), root: AuthNode::new(&oc, "transfer_ownership", if oth { alt } else { args.clone() }) }], w == o && !oth),
                };
                ctx.judged(&["C06", "C17"], hash_of(&self.m), "transfer_ownership", if ok { "accept" } else { "unauthorised" });
                let res = self.sim.call(&oc, "transfer_ownership", args, &entries, *abort);
                if !after_call(ctx, &res, "transfer_ownership", &["C06"]) {
                    return;
                }
                ctx.count(&format!("op.transfer_ownership.{}.{}", if ok { "accept" } else { "unauthorised" }, res.out.class()));
                if !ok {
                    must_fail(ctx, &res, &["C06"], &format!("transfer_ownership/accepted-without-holder-auth:{}", auth.name()), "not the owner");
                    return;
                }
                if !ctx.check(res.out.is_ok(), &["C06"], "role-transfer/holder-refused", || res.out.err_text()) {
                    return;
                }
                let exp = vec![Ev { contract: addr_bytes(&oc), topics: vec![sym("ownership_transferred"), saddr(&self.p[o]), saddr(&self.p[ti])], data: svec(vec![]) }];
                ctx.check(crate::judge::events_match(&res.events, &exp, &[]), &["C06"], "role-transfer/wrong-event", || format!("{:?}", res.events));
                if ti != o {
                    self.m.former_owner = Some(o);
                }
                self.m.owner = ti;
            }
            OOp::Execute { operator, target, auth, abort } => {
                let oi = pi(*operator);
                // "everyone approves everything" would also grant the third party's authorisation whose
                // absence is what makes this target fail; that case keeps the exact tree
                let exact = AuthVar::Right;
                let auth = if *auth == AuthVar::Everyone && matches!(target, Target::NeedsOtherAuth) { &exact } else { auth };
                // the forwarded call
                let (contract, fname, targs, log_entry, ret, target_ok): (Address, &str, SVec<Val>, Option<ScVal>, Option<ScVal>, bool) = match target {
                    Target::Echo { a, b, c, ret } => {
                        let (va, vb, vc, vr) = (self.v(a), self.v(b), self.v(c), self.v(ret));
                        let mut t: SVec<Val> = SVec::new(&env);
                        for x in [va, vb, vc, vr] {
                            t.push_back(x);
                        }
                        let le = svec(vec![su32(1), self.sim.val_to_sc(&va), self.sim.val_to_sc(&vb), self.sim.val_to_sc(&vc)]);
                        (self.target.clone(), "echo", t, Some(le), Some(self.sim.val_to_sc(&vr)), true)
                    }
                    Target::Bump(x) => {
                        let x = *x as i128;
                        (self.target.clone(), "bump", (x,).into_val(&env), Some(svec(vec![su32(2), si128(x)])), Some(si128(x + 1)), true)
                    }
                    Target::Noop => (self.target.clone(), "noop", SVec::new(&env), Some(svec(vec![su32(3)])), Some(ScVal::Void), true),
                    Target::Fail => {
                        ctx.count("F9.target_traps");
                        (self.target.clone(), "fail", SVec::new(&env), None, None, false)
                    }
                    Target::NeedsCallerAuth => {
                        ctx.count("probe.target_requires_callers_own_auth");
                        (self.target.clone(), "needs_caller_auth", (oc.clone(),).into_val(&env), Some(svec(vec![su32(5), saddr(&oc)])), Some(su32(7)), true)
                    }
                    Target::NeedsOtherAuth => (self.target.clone(), "needs_caller_auth", (self.p[STRANGER].clone(),).into_val(&env), None, None, false),
                    Target::Collect { amount } => {
                        let a = *amount as i128;
                        let good = a > 0 && a <= self.m.gas_held;
                        (self.gas.clone(), "collect_fees", (self.p[5].clone(), Token { address: self.token.clone(), amount: a }).into_val(&env), None, Some(ScVal::Void), good)
                    }
                    Target::NoSuchFunction => (self.target.clone(), "no_such_fn", SVec::new(&env), None, None, false),
                    Target::WrongArity => (self.target.clone(), "bump", SVec::new(&env), None, None, false),
                };
                let args: SVec<Val> = (self.p[oi].clone(), contract.clone(), Symbol::new(&env, fname), targs.clone()).into_val(&env);
                // "the right principal for other arguments": where the forwarded call has arguments, the operator
                // signs the same target and function with the arguments left out; otherwise another function
                let alt: SVec<Val> = if !targs.is_empty() {
                    ctx.count("probe.operator_authorised_same_function_other_arguments");
                    (self.p[oi].clone(), contract.clone(), Symbol::new(&env, fname), SVec::<Val>::new(&env)).into_val(&env)
                } else {
                    (self.p[oi].clone(), contract.clone(), Symbol::new(&env, "noop"), SVec::<Val>::new(&env)).into_val(&env)
                };
                let other = self.m.ops.iter().copied().find(|x| *x != oi).unwrap_or(STRANGER);
                let c = AuthCtx { right: oi, former: None, other_role: other, counterparty: other, owner: self.m.owner, stranger: STRANGER };
                if auth.is_fault() {
                    ctx.count(&format!("F7.execute.{}", auth.name()));
                }
                let (entries, auth_ok) = match resolve_auth(&mut self.sim, *auth, &c) {
                    None => (vec![], false),
                    Some((w, oth)) => {
                        let same = matches!(target, Target::Noop) && oth;
                        (vec![AuthEntry { who: self.p[w].clone(), root: AuthNode::new(&oc, "execute", if oth { alt } else { args.clone() }) }], w == oi && (!oth || same))
                    }
                };
                let member = self.m.ops.contains(&oi);
                if !member && self.m.ever_op.contains(&oi) {
                    ctx.count("probe.execute_by_former_operator");
                }
                let label = if !auth_ok { "unauthorised" } else if !member { "not-an-operator" } else if !target_ok { "target-fails" } else { "accept" };
                ctx.judged(&["C17", "C07"], hash_of(&self.m) ^ hash_of(target), "execute", label);
                let res = self.sim.call(&oc, "execute", args, &entries, *abort);
                ctx.note(|| format!("execute by p{} {:?} auth={:?} expect={} -> {}", oi, target, auth, label, res.out.err_text()));
                if !after_call(ctx, &res, "execute", &["C17"]) {
                    return;
                }
                ctx.count(&format!("op.execute.{}.{}", label, res.out.class()));
                if !auth_ok {
                    must_fail(ctx, &res, &["C07", "C17"], "execute/accepted-without-operators-auth", "operator did not authorise the call");
                    return;
                }
                if !member {
                    must_fail(ctx, &res, &["C17", "C06"], "execute/accepted-from-non-member", "caller is not in the operator set");
                    return;
                }
                if !target_ok {
                    must_fail(ctx, &res, &["C17"], "execute/target-failure-swallowed", "the target call fails");
                    return;
                }
                if !ctx.check(res.out.is_ok(), &["C17"], "execute/valid-call-refused", || res.out.err_text()) {
                    return;
                }
                let got = res.out.val().map(|v| self.sim.val_to_sc(&v));
                if !ctx.check(got == ret, &["C17"], "execute/return-value-changed", || format!("returned {:?}, target returned {:?}", got, ret)) {
                    return;
                }
                if let Some(le) = log_entry {
                    self.m.log_len += 1;
                    self.log.push(le.clone());
                    let n = self.sim.query(&self.target.clone(), "log_len", SVec::new(&env));
                    let nv = n.val().and_then(|v| u32::try_from_val(&env, &v).ok());
                    if !ctx.check(nv == Some(self.m.log_len), &["C17"], "execute/target-not-called-exactly-once", || format!("target log has {:?} entries, expected {}", nv, self.m.log_len)) {
                        return;
                    }
                    let e = self.sim.query(&self.target.clone(), "log_at", (self.m.log_len - 1,).into_val(&env));
                    let evv = e.val().map(|v| self.sim.val_to_sc(&v));
                    if !ctx.check(evv.as_ref() == Some(&le), &["C17"], "execute/forwarded-call-altered", || format!("target recorded {:?}, expected {:?}", evv, le)) {
                        return;
                    }
                }
                if let Target::Collect { amount } = target {
                    self.m.gas_held -= *amount as i128;
                    self.m.receiver_bal += *amount as i128;
                }
            }
            OOp::Advance { dseq } => {
                crate::common::advance_ledgers(&self.sim, ctx, *dseq);
            }
            OOp::Resubmit { .. } => {}
        }
    }

    pub fn invariants(&mut self, ctx: &mut Ctx) {
        let env = self.sim.env.clone();
        for i in 0..self.p.len() {
            let q = self.sim.query(&self.ops_c.clone(), "is_operator", (self.p[i].clone(),).into_val(&env));
            let qv = q.val().and_then(|v| bool::try_from(v).ok());
            if !ctx.check(qv == Some(self.m.ops.contains(&i)), &["C17", "C06"], "invariant/operator-set-differs", || format!("is_operator(p{}) = {:?}, history says {}", i, qv, self.m.ops.contains(&i))) {
                return;
            }
        }
        let n = self.sim.query(&self.target.clone(), "log_len", SVec::new(&env));
        let nv = n.val().and_then(|v| u32::try_from_val(&env, &v).ok());
        if !ctx.check(nv == Some(self.m.log_len), &["C17"], "invariant/target-log-length", || format!("target log has {:?} entries, model {}", nv, self.m.log_len)) {
            return;
        }
        let b = self.sim.query(&self.token.clone(), "balance", (self.gas.clone(),).into_val(&env));
        let bv = b.val().and_then(|v| i128::try_from_val(&env, &v).ok());
        if !ctx.check(bv == Some(self.m.gas_held), &["C17"], "invariant/gas-service-balance", || format!("gas service holds {:?}, model {}", bv, self.m.gas_held)) {
            return;
        }
        let o = self.sim.query(&self.ops_c.clone(), "owner", SVec::new(&env));
        let ov = o.val().and_then(|v| Address::try_from_val(&env, &v).ok());
        ctx.check(ov.as_ref() == Some(&self.p[self.m.owner]), &["C06", "C17"], "invariant/owner-differs", || "owner() differs".into());
    }
}

impl World for WorldO {
    const NAME: &'static str = "O";
    type Cfg = OCfg;
    type Op = OOp;

    fn components() -> Value {
        json!({
            "real": ["axelar-operators (native, /repo)", "axelar-gas-service with the operators contract as collector (native, /repo)", "Stellar Asset Contract", "soroban-env-host 22.1"],
            "stub": ["ProbeTarget (harness contract: records calls, echoes return values, traps on demand, requires the calling contract's auth)", "owner, operators, strangers: generated addresses"]
        })
    }

    fn generate(rng: &mut Rng, p: GenParams) -> (OCfg, Vec<OOp>) {
        let f_auth = p.faults && rng.chance(3, 4);
        let f_abort = p.faults && rng.chance(1, 2);
        let f_dup = p.faults && rng.chance(3, 4);
        let cfg = OCfg { funds: *rng.pick(&[0i64, 100, 10_000]) };
        let w: [u32; 5] = match p.focus {
            "C06" => [25, 22, 25, 15, if f_dup { 8 } else { 0 }],
            "C07" => [12, 8, 3, 60, if f_dup { 8 } else { 0 }],
            _ => [20, 14, 5, 50, if f_dup { 10 } else { 0 }],
        };
        let n = rng.range(15, if p.thorough { 70 } else { 50 }) as usize;
        let vs = |rng: &mut Rng| match rng.below(9) {
            0 => VSpec::Unit,
            1 => VSpec::Bool(rng.chance(1, 2)),
            2 => VSpec::U32(rng.next_u64() as u32),
            3 => VSpec::I128(rng.next_u64() as i64 >> 8),
            4 => VSpec::Bytes(rng.below(70) as u8),
            5 => VSpec::Str(rng.below(5) as u8),
            6 => VSpec::Sym(rng.below(4) as u8),
            7 => VSpec::Addr(rng.below(NP as u64) as u8),
            _ => VSpec::Vec(rng.below(5) as u8),
        };
        let mut ops = vec![];
        for _ in 0..n {
            let fault = f_auth && rng.chance(1, if p.focus == "C17" { 4 } else { 2 });
            let abort = opt_abort(rng, f_abort, 120);
            let admin = |rng: &mut Rng| if fault { *rng.pick(&[AuthVar::Former, AuthVar::OtherRole, AuthVar::Counterparty, AuthVar::Stranger, AuthVar::Nobody, AuthVar::RightOtherArgs]) } else { AuthVar::Right };
            let op = match rng.weighted(&w) {
                0 => OOp::Add { who: if rng.chance(1, 8) { 0 } else if rng.chance(1, 8) { 100 + rng.below(4) as u8 } else { rng.range(1, 4) as u8 }, auth: admin(rng), abort },
                1 => OOp::Remove { who: if rng.chance(1, 8) { *rng.pick(&[0u8, 5, 6]) } else if rng.chance(1, 8) { 100 + rng.below(4) as u8 } else { rng.range(1, 4) as u8 }, auth: admin(rng), abort },
                2 => OOp::TransferOwnership { to: rng.below(NP as u64) as u8, auth: admin(rng), abort },
                3 => {
                    let target = match rng.weighted(&[10, 4, 3, 4, 3, 2, 5, 1, 1]) {
                        0 => Target::Echo { a: vs(rng), b: vs(rng), c: vs(rng), ret: vs(rng) },
                        1 => Target::Bump(rng.next_u64() as i64 >> 4),
                        2 => Target::Noop,
                        3 => Target::Fail,
                        4 => Target::NeedsCallerAuth,
                        5 => Target::NeedsOtherAuth,
                        6 => Target::Collect { amount: *rng.pick(&[1i64, 5, 50, 0, -1, 1_000_000]) },
                        7 => Target::NoSuchFunction,
                        _ => Target::WrongArity,
                    };
                    OOp::Execute {
                        operator: if rng.chance(5, 6) { rng.range(0, 4) as u8 } else { rng.below(NP as u64) as u8 },
                        target,
                        auth: if fault { *rng.pick(&[AuthVar::OtherRole, AuthVar::Owner, AuthVar::Stranger, AuthVar::Nobody, AuthVar::RightOtherArgs]) } else if f_auth && rng.chance(1, 6) { AuthVar::Everyone } else { AuthVar::Right },
                        abort,
                    }
                }
                _ => OOp::Resubmit { k: rng.below(64) as u16 },
            };
            ops.push(op);
            if rng.chance(1, 12) {
                ops.push(OOp::Advance { dseq: *rng.pick(&[1u32, 17, 100, 20_000, 1_100_000]) });
            }
        }
        (cfg, ops)
    }

    fn execute(cfg: &OCfg, ops: &[OOp], ctx: &mut Ctx) {
        if ctx.focus == "C17" {
            for p in ["probe.execute_by_former_operator", "probe.target_requires_callers_own_auth"] {
                ctx.counters.entry(p.to_string()).or_insert(0);
            }
        }
        let mut sim = Sim::new(1_700_000_000, 10);
        let env = sim.env.clone();
        let p: Vec<Address> = (0..NP).map(|_| Address::generate(&env)).collect();
        sim.setup_all_auths();
        let ops_c = env.register(AxelarOperators, (&p[0],));
        let target = env.register(ProbeTarget, ());
        let gas = env.register(AxelarGasService, (&p[0], &ops_c));
        let token = env.register_stellar_asset_contract_v2(Address::generate(&env)).address();
        if cfg.funds > 0 {
            soroban_sdk::token::StellarAssetClient::new(&env, &token).mint(&gas, &(cfg.funds as i128));
        }
        sim.end_setup();
        let mut p = p;
        for k in 1..=4usize {
            let t = crate::host::account_twin(&env, &p[k]);
            p.push(t);
        }
        let m = OModel { owner: 0, gas_held: cfg.funds as i128, ..Default::default() };
        let mut ex = OExec { sim, ops_c, target, gas, token, p, m, log: vec![], history: vec![] };
        ex.invariants(ctx);
        for (i, op) in ops.iter().enumerate() {
            if ctx.stopped() {
                break;
            }
            ctx.step = i;
            ex.sim.permissive_next = false;
            let eff = match op {
                OOp::Resubmit { k } => {
                    if ex.history.is_empty() {
                        ctx.end_step();
                        continue;
                    }
                    ctx.count("F1.resubmit");
                    ex.history[*k as usize % ex.history.len()].clone()
                }
                o => o.clone(),
            };
            ctx.trace_str(eff.kind());
            ex.run_op(ctx, &eff);
            if i % 3 == 1 && !ctx.stopped() {
                let mut addrs = ex.p.clone();
                addrs.push(ex.target.clone());
                let oc = ex.ops_c.clone();
                crate::surface::probe_unlisted(ctx, &mut ex.sim, &oc, "axelar-operators", &addrs, &["C17", "C07", "C06"], &["C17", "C07", "C06"]);
            }
            if !matches!(op, OOp::Resubmit { .. } | OOp::Advance { .. }) {
                ex.history.push(op.clone());
            }
            if !ctx.stopped() {
                ex.invariants(ctx);
            }
            ctx.trace_u64(hash_of(&ex.m));
            ctx.trace_u64(ex.sim.digest().0);
            ctx.end_step();
        }
        // quiescent tail: the owner can still add an operator, who can act at once
        if !ctx.stopped() {
            ctx.step = ops.len();
            if !ex.m.ops.contains(&4) {
                ex.run_op(ctx, &OOp::Add { who: 4, auth: AuthVar::Right, abort: None });
            }
            if !ctx.stopped() {
                ex.run_op(ctx, &OOp::Execute { operator: 4, target: Target::Bump(41), auth: AuthVar::Right, abort: None });
            }
            if !ctx.stopped() {
                ex.invariants(ctx);
            }
            ctx.end_step();
        }
        for (k, v) in std::mem::take(&mut ex.sim.counters) {
            ctx.count_n(&k, v);
        }
    }

    fn simplify(op: &OOp) -> Vec<OOp> {
        let mut o = op.clone();
        match &mut o {
            OOp::Add { abort, .. } | OOp::Remove { abort, .. } | OOp::TransferOwnership { abort, .. } | OOp::Execute { abort, .. } => {
                if abort.is_some() {
                    *abort = None;
                    return vec![o];
                }
            }
            _ => {}
        }
        vec![]
    }
}
