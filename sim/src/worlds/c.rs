//! World C (codec): the repository's ITS ABI codec against the independent
//! encoder, on generated messages and on hostile byte strings (fault F6 at
//! the wire seam).  This part of C10 is a pure function of its input; the
//! schedule plays no role here and none is claimed (DESIGN §3 C10).  The
//! in-situ half of C10 runs in world I.

use super::i_in::repo_decode;
use crate::abi::{enc_deploy, enc_hub, enc_transfer, w, AHub, AMsg, Word};
use crate::common::StrSpec;
use crate::engine::{Ctx, GenParams, World};
use crate::rng::{hash_of, Rng};
use interchain_token_service::types as rt;
use serde::{Deserialize, Serialize};
use serde_json::{json, Value};
use soroban_sdk::testutils::EnvTestConfig;
use soroban_sdk::{Bytes, BytesN, Env, String as SStr};
use std::panic::{catch_unwind, AssertUnwindSafe};

#[derive(Serialize, Deserialize, Clone, Debug)]
pub struct CCfg {}

#[derive(Serialize, Deserialize, Clone, Debug, PartialEq, Eq, Hash)]
pub enum CAmt {
    Zero,
    One,
    Lit(u64),
    TwoPow64,
    Max,
}

#[derive(Serialize, Deserialize, Clone, Debug, PartialEq, Eq, Hash)]
pub enum CKind {
    Transfer { id: u8, src_len: u16, dst_len: u16, amount: CAmt, data_len: u16 },
    Deploy { id: u8, name: StrSpec, symbol: StrSpec, decimals: u8, minter_len: u16 },
}

#[derive(Serialize, Deserialize, Clone, Debug, PartialEq, Eq, Hash)]
pub struct CMsg {
    pub send: bool,
    pub chain: StrSpec,
    pub kind: CKind,
}

#[derive(Serialize, Deserialize, Clone, Debug, PartialEq, Eq, Hash)]
pub enum Mutation {
    BitFlip(u32),
    /// add `delta` to the low byte(s) of 32-byte word `word` (offsets, lengths, tags)
    WordAdd { word: u16, delta: i16 },
    WordHuge { word: u16 },
    DirtyLastByte,
    Truncate(u16),
    Trailing(u8),
    OuterTag(u32),
    InnerTag(u32),
    AmountPow(u8),
    DecimalsWord(u32),
    HighBitsInTag,
    InnerTrailing(u8),
    InnerDirtyWord(u8),
    InnerDirtyPadding,
    /// cut the nested message (the wrapper stays canonical); also decoded on its own
    InnerTruncate(u16),
}

#[derive(Serialize, Deserialize, Clone, Debug, PartialEq, Eq, Hash)]
pub enum COp {
    /// encode / decode a representable message (wrapped and bare)
    Msg(CMsg),
    /// decode a valid encoding with one mutation
    Hostile { base: CMsg, m: Mutation },
    Random { len: u16, tag: u32 },
}

pub struct WorldC;

fn bytes_of(len: u16, tag: u8) -> Vec<u8> {
    (0..len).map(|i| (i as u8).wrapping_mul(31).wrapping_add(tag)).collect()
}

fn amount_of(a: &CAmt) -> u128 {
    match a {
        CAmt::Zero => 0,
        CAmt::One => 1,
        CAmt::Lit(v) => *v as u128,
        CAmt::TwoPow64 => 1u128 << 64,
        CAmt::Max => i128::MAX as u128,
    }
}

fn to_amsg(m: &CMsg) -> AHub {
    // one message in five carries all-zero byte fields (a 20-byte zero field is the EVM zero address,
    // a 32-byte one a zero word: values a "normalising" decoder might take for "absent")
    let field = |id: u8, len: u16, tag: u8| if id % 5 == 0 { vec![0u8; len as usize] } else { bytes_of(len, tag) };
    let msg = match &m.kind {
        CKind::Transfer { id, src_len, dst_len, amount, data_len } => AMsg::Transfer { id: [*id; 32], src: field(*id, *src_len, 1), dst: field(*id, *dst_len, 2), amount: amount_of(amount), data: field(*id, *data_len, 3) },
        CKind::Deploy { id, name, symbol, decimals, minter_len } => AMsg::Deploy { id: [*id; 32], name: name.resolve(), symbol: symbol.resolve(), decimals: *decimals, minter: field(*id, *minter_len, 4) },
    };
    AHub { send: m.send, chain: m.chain.resolve(), msg }
}

fn opt_bytes(env: &Env, b: &[u8]) -> Option<Bytes> {
    if b.is_empty() {
        None
    } else {
        Some(Bytes::from_slice(env, b))
    }
}

/// the same message with an absent optional byte field (data / minter) replaced by a present, empty one
fn with_present_empty_field(env: &Env, m: &rt::HubMessage) -> Option<rt::HubMessage> {
    let fix = |msg: &rt::Message| -> Option<rt::Message> {
        match msg {
            rt::Message::InterchainTransfer(t) if t.data.is_none() => Some(rt::Message::InterchainTransfer(rt::InterchainTransfer { data: Some(Bytes::new(env)), ..t.clone() })),
            rt::Message::DeployInterchainToken(d) if d.minter.is_none() => Some(rt::Message::DeployInterchainToken(rt::DeployInterchainToken { minter: Some(Bytes::new(env)), ..d.clone() })),
            _ => None,
        }
    };
    match m {
        rt::HubMessage::SendToHub { destination_chain, message } => fix(message).map(|message| rt::HubMessage::SendToHub { destination_chain: destination_chain.clone(), message }),
        rt::HubMessage::ReceiveFromHub { source_chain, message } => fix(message).map(|message| rt::HubMessage::ReceiveFromHub { source_chain: source_chain.clone(), message }),
    }
}

fn to_repo(env: &Env, h: &AHub) -> rt::HubMessage {
    let message = match &h.msg {
        AMsg::Transfer { id, src, dst, amount, data } => rt::Message::InterchainTransfer(rt::InterchainTransfer {
            token_id: BytesN::from_array(env, id),
            source_address: Bytes::from_slice(env, src),
            destination_address: Bytes::from_slice(env, dst),
            amount: *amount as i128,
            data: opt_bytes(env, data),
        }),
        AMsg::Deploy { id, name, symbol, decimals, minter } => rt::Message::DeployInterchainToken(rt::DeployInterchainToken {
            token_id: BytesN::from_array(env, id),
            name: SStr::from_str(env, name),
            symbol: SStr::from_str(env, symbol),
            decimals: *decimals,
            minter: opt_bytes(env, minter),
        }),
    };
    if h.send {
        rt::HubMessage::SendToHub { destination_chain: SStr::from_str(env, &h.chain), message }
    } else {
        rt::HubMessage::ReceiveFromHub { source_chain: SStr::from_str(env, &h.chain), message }
    }
}

fn pow2(n: u32) -> Word {
    let mut o = [0u8; 32];
    o[31 - (n / 8) as usize] = 1 << (n % 8);
    o
}

/// Amount words above 2^127-1.  Codes below 240 are the power of two 2^p; the others are the
/// words a narrowing conversion could mistake for something in range: the 256-bit two's
/// complement forms of negative 128-bit values (all ones = -1, ... , sign-extended i128::MIN),
/// u128::MAX, 2^127 plus low bits, and high halves that are all ones or a single low bit.
fn amount_word(p: u8) -> Word {
    let mut o = [0u8; 32];
    match p {
        0..=239 => return pow2(p as u32),
        240 => o = [0xff; 32],
        241 => {
            o = [0xff; 32];
            for b in o[16..].iter_mut() {
                *b = 0;
            }
            o[16] = 0x80;
        }
        242 => {
            o = [0xff; 32];
            o[31] = 0xfe;
        }
        243 => {
            for b in o[16..].iter_mut() {
                *b = 0xff;
            }
        }
        244 => {
            o[16] = 0x80;
            o[31] = 0x2a;
        }
        245 => {
            for b in o[..16].iter_mut() {
                *b = 0xff;
            }
            o[31] = 7;
        }
        246 => {
            // sign-extended -(10^18)
            let v = (-1_000_000_000_000_000_000i128).to_be_bytes();
            o = [0xff; 32];
            o[16..].copy_from_slice(&v);
        }
        _ => {
            o[15] = 1;
            o[31] = 1;
        }
    }
    o
}

fn check_bytes(env: &Env, ctx: &mut Ctx, bytes: &[u8], what: &str) -> bool {
    match repo_decode(env, bytes) {
        Err(p) => ctx.check(false, &["C10"], "codec/decoder-crashed", || format!("{}: abi_decode panicked on {}: {}", what, hex::encode(bytes), p)),
        Ok(None) => {
            ctx.count("codec.rejected");
            true
        }
        Ok(Some(m)) => {
            ctx.count("codec.accepted");
            let re = m.encode();
            ctx.check(re == bytes, &["C10"], "codec/accepted-non-canonical-encoding", || {
                format!("{}: decoder accepted bytes that are not the canonical encoding of what it returned ({:?}): input {} canonical {}", what, m, hex::encode(bytes), hex::encode(&re))
            })
        }
    }
}

impl World for WorldC {
    const NAME: &'static str = "C";
    type Cfg = CCfg;
    type Op = COp;

    fn components() -> Value {
        json!({
            "real": ["interchain-token-service abi.rs / types.rs (HubMessage / Message abi_encode, abi_decode incl. alloy-sol-types with validate=true), native from /repo"],
            "stub": ["ITS hub: independent hand-written ABI encoder (self-tested against the repository's ten golden vectors)"]
        })
    }

    fn generate(rng: &mut Rng, _p: GenParams) -> (CCfg, Vec<COp>) {
        // mostly short fields; one time in seven a field of one to forty kilobytes (any fixed-size buffer,
        // page or word-count limit in the decoder sits somewhere in between)
        let small: [u16; 10] = [0, 1, 20, 31, 32, 33, 63, 64, 65, 300];
        let large: [u16; 10] = [1000, 1023, 1024, 2047, 2048, 2049, 4096, 5000, 16_384, 40_000];
        let mut lens: [u16; 10] = small;
        for l in lens.iter_mut() {
            if rng.chance(1, 7) {
                *l = *rng.pick(&large);
            }
        }
        let gen_msg = |rng: &mut Rng| -> CMsg {
            let kind = if rng.chance(1, 2) {
                CKind::Transfer {
                    id: rng.below(256) as u8,
                    src_len: *rng.pick(&lens),
                    dst_len: *rng.pick(&lens),
                    amount: match rng.below(5) { 0 => CAmt::Zero, 1 => CAmt::One, 2 => CAmt::Lit(rng.next_u64()), 3 => CAmt::TwoPow64, _ => CAmt::Max },
                    data_len: *rng.pick(&lens),
                }
            } else {
                CKind::Deploy { id: rng.below(256) as u8, name: StrSpec::gen(rng), symbol: StrSpec::gen(rng), decimals: *rng.pick(&[0u8, 1, 7, 18, 127, 128, 255]), minter_len: *rng.pick(&lens) }
            };
            CMsg { send: rng.chance(1, 2), chain: StrSpec::gen(rng), kind }
        };
        let n = 40;
        let mut ops = vec![];
        for _ in 0..n {
            let op = match rng.weighted(&[4, 10, 1]) {
                0 => COp::Msg(gen_msg(rng)),
                1 => {
                    let m = match rng.below(16) {
                        0 => Mutation::BitFlip(rng.next_u64() as u32),
                        1 => Mutation::WordAdd { word: rng.below(24) as u16, delta: *rng.pick(&[1i16, -1, 32, -32, 31, 64]) },
                        2 => Mutation::WordHuge { word: rng.below(24) as u16 },
                        3 => Mutation::DirtyLastByte,
                        4 => Mutation::Truncate(rng.below(700) as u16),
                        5 => Mutation::Trailing(rng.below(96) as u8),
                        6 => Mutation::OuterTag(*rng.pick(&[0u32, 1, 2, 5, 255, 256, 65536])),
                        7 => Mutation::InnerTag(*rng.pick(&[2u32, 3, 4, 5, 255, 256])),
                        8 => Mutation::AmountPow(*rng.pick(&[127u8, 128, 129, 200, 254, 255, 240, 241, 242, 243, 244, 245, 246, 247])),
                        9 => Mutation::DecimalsWord(*rng.pick(&[256u32, 257, 65535, 1 << 31])),
                        10 => Mutation::HighBitsInTag,
                        11 => Mutation::InnerTrailing(rng.below(3) as u8),
                        12 => Mutation::InnerDirtyWord(rng.below(2) as u8),
                        13 => Mutation::InnerDirtyPadding,
                        _ => Mutation::InnerTruncate(rng.below(700) as u16),
                    };
                    COp::Hostile { base: gen_msg(rng), m }
                }
                _ => COp::Random { len: *rng.pick(&[0u16, 1, 31, 32, 33, 64, 96, 128, 320, 1000, 2048, 2049, 2080, 4128, 40_000]), tag: rng.next_u64() as u32 },
            };
            ops.push(op);
        }
        (CCfg {}, ops)
    }

    fn execute(_cfg: &CCfg, ops: &[COp], ctx: &mut Ctx) {
        let env = Env::new_with_config(EnvTestConfig { capture_snapshot_at_drop: false });
        #[allow(deprecated)]
        env.budget().reset_unlimited();
        for (i, op) in ops.iter().enumerate() {
            if ctx.stopped() {
                break;
            }
            ctx.step = i;
            match op {
                COp::Msg(m) => {
                    let h = to_amsg(m);
                    ctx.judged(&["C10"], hash_of(&h), "encode", "");
                    let ours = h.encode();
                    let repo = to_repo(&env, &h);
                    let enc = catch_unwind(AssertUnwindSafe(|| repo.clone().abi_encode(&env)));
                    let enc_bytes: Option<Vec<u8>> = match enc {
                        Ok(Ok(b)) => Some(b.to_alloc_vec()),
                        _ => None,
                    };
                    ctx.count("codec.encoded");
                    if !ctx.check(enc_bytes.as_deref() == Some(&ours[..]), &["C10"], "codec/encoding-differs-from-solidity-abi", || {
                        format!("message {:?}: repository encoding {:?} independent encoding {}", h, enc_bytes.as_ref().map(hex::encode), hex::encode(&ours))
                    }) {
                        break;
                    }
                    let dec = repo_decode(&env, &ours);
                    if !ctx.check(matches!(&dec, Ok(Some(d)) if *d == h), &["C10"], "codec/round-trip-differs", || format!("decode(encode(m)) = {:?}, m = {:?}", dec, h)) {
                        break;
                    }
                    // an optional byte field that is present but empty is a representable message too: same bytes
                    if let Some(present) = with_present_empty_field(&env, &repo) {
                        ctx.count("probe.codec_present_but_empty_optional_field");
                        let pe = catch_unwind(AssertUnwindSafe(|| present.abi_encode(&env)));
                        let peb: Option<Vec<u8>> = match pe {
                            Ok(Ok(b)) => Some(b.to_alloc_vec()),
                            _ => None,
                        };
                        if !ctx.check(peb.as_deref() == Some(&ours[..]), &["C10"], "codec/encoding-differs-from-solidity-abi", || {
                            format!("message {:?} with its empty optional field present: repository encoding {:?} independent encoding {}", h, peb.as_ref().map(hex::encode), hex::encode(&ours))
                        }) {
                            break;
                        }
                    }
                    // the bare inner message too
                    let inner_ours = h.msg.encode();
                    let inner_repo = match &repo {
                        rt::HubMessage::SendToHub { message, .. } | rt::HubMessage::ReceiveFromHub { message, .. } => message.clone(),
                    };
                    let ie = catch_unwind(AssertUnwindSafe(|| inner_repo.clone().abi_encode(&env)));
                    let ieb: Option<Vec<u8>> = match ie {
                        Ok(Ok(b)) => Some(b.to_alloc_vec()),
                        _ => None,
                    };
                    if !ctx.check(ieb.as_deref() == Some(&inner_ours[..]), &["C10"], "codec/encoding-differs-from-solidity-abi", || format!("inner message {:?}", h.msg)) {
                        break;
                    }
                    let id = catch_unwind(AssertUnwindSafe(|| rt::Message::abi_decode(&env, &Bytes::from_slice(&env, &inner_ours))));
                    if !ctx.check(matches!(&id, Ok(Ok(d)) if *d == inner_repo), &["C10"], "codec/round-trip-differs", || format!("inner decode(encode(m)) differs for {:?}", h.msg)) {
                        break;
                    }
                    ctx.trace_u64(hash_of(&ours));
                }
                COp::Hostile { base, m } => {
                    let h = to_amsg(base);
                    ctx.judged(&["C10"], hash_of(&(&h, m)), "decode-hostile", "");
                    let mut outer_tag = w(if h.send { 3 } else { 4 });
                    let mut inner_tag = w(match h.msg { AMsg::Transfer { .. } => 0, AMsg::Deploy { .. } => 1 });
                    let mut amount_w: Option<Word> = None;
                    let mut dec_w: Option<Word> = None;
                    match m {
                        Mutation::OuterTag(t) => outer_tag = w(*t as u128),
                        Mutation::InnerTag(t) => inner_tag = w(*t as u128),
                        Mutation::AmountPow(p) => amount_w = Some(amount_word(*p)),
                        Mutation::DecimalsWord(d) => dec_w = Some(w(*d as u128)),
                        Mutation::HighBitsInTag => outer_tag[0] = 0x80,
                        _ => {}
                    }
                    let inner = match &h.msg {
                        AMsg::Transfer { id, src, dst, amount, data } => enc_transfer(inner_tag, id, src, dst, amount_w.unwrap_or(w(*amount)), data),
                        AMsg::Deploy { id, name, symbol, decimals, minter } => enc_deploy(inner_tag, id, name.as_bytes(), symbol.as_bytes(), dec_w.unwrap_or(w(*decimals as u128)), minter),
                    };
                    let mut inner = inner;
                    match m {
                        Mutation::InnerTrailing(k) => inner.extend(std::iter::repeat(0u8).take(32 * (1 + *k as usize % 3))),
                        Mutation::InnerDirtyWord(wd) => {
                            let idx = [0usize, 4][*wd as usize % 2] * 32;
                            if inner.len() > idx + 32 {
                                inner[idx + 29] ^= 0x01;
                            }
                        }
                        Mutation::InnerDirtyPadding => {
                            let l = inner.len();
                            inner[l - 1] ^= 0x01;
                        }
                        Mutation::InnerTruncate(n) => {
                            let keep = *n as usize % inner.len();
                            inner.truncate(keep);
                        }
                        _ => {}
                    }
                    let mut bytes = enc_hub(outer_tag, h.chain.as_bytes(), &inner);
                    match m {
                        Mutation::BitFlip(b) => {
                            let bit = *b as usize % (bytes.len() * 8);
                            bytes[bit / 8] ^= 1 << (bit % 8);
                        }
                        Mutation::WordAdd { word, delta } => {
                            let wi = (*word as usize % (bytes.len() / 32)) * 32;
                            let v = u16::from_be_bytes([bytes[wi + 30], bytes[wi + 31]]) as i32 + *delta as i32;
                            let v = v.clamp(0, 65535) as u16;
                            bytes[wi + 30..wi + 32].copy_from_slice(&v.to_be_bytes());
                        }
                        Mutation::WordHuge { word } => {
                            let wi = (*word as usize % (bytes.len() / 32)) * 32;
                            bytes[wi] = 0xff;
                        }
                        Mutation::DirtyLastByte => {
                            let l = bytes.len();
                            bytes[l - 1] ^= 1;
                        }
                        Mutation::Truncate(n) => {
                            let keep = *n as usize % bytes.len();
                            bytes.truncate(keep);
                        }
                        Mutation::Trailing(k) => bytes.extend(std::iter::repeat(0u8).take(1 + *k as usize)),
                        _ => {}
                    }
                    ctx.count(&format!("F6.{}", match m {
                        Mutation::BitFlip(_) => "bit_flip",
                        Mutation::WordAdd { .. } => "offset_or_length_edit",
                        Mutation::WordHuge { .. } => "word_huge",
                        Mutation::DirtyLastByte => "dirty_padding",
                        Mutation::Truncate(_) => "truncated",
                        Mutation::Trailing(_) => "trailing_bytes",
                        Mutation::OuterTag(_) => "outer_tag",
                        Mutation::InnerTag(_) => "inner_tag",
                        Mutation::AmountPow(_) => "amount_out_of_range",
                        Mutation::DecimalsWord(_) => "decimals_out_of_range",
                        Mutation::HighBitsInTag => "high_bits_in_tag",
                        Mutation::InnerTrailing(_) => "inner_trailing_word",
                        Mutation::InnerDirtyWord(_) => "inner_dirty_static_word",
                        Mutation::InnerDirtyPadding => "inner_dirty_padding",
                        Mutation::InnerTruncate(_) => "inner_truncated",
                    }));
                    if !check_bytes(&env, ctx, &bytes, "mutated encoding") {
                        break;
                    }
                    // explicit range rules of the statement
                    if matches!(m, Mutation::AmountPow(_)) && matches!(h.msg, AMsg::Transfer { .. }) {
                        let d = repo_decode(&env, &bytes);
                        if !ctx.check(matches!(d, Ok(None)), &["C10"], "codec/accepted-amount-above-2^127-1", || format!("{:?}", d)) {
                            break;
                        }
                    }
                    // the inner bytes alone
                    let di = catch_unwind(AssertUnwindSafe(|| rt::Message::abi_decode(&env, &Bytes::from_slice(&env, &inner))));
                    if !ctx.check(di.is_ok(), &["C10"], "codec/decoder-crashed", || format!("Message::abi_decode panicked on {}", hex::encode(&inner))) {
                        break;
                    }
                    ctx.trace_u64(hash_of(&bytes));
                }
                COp::Random { len, tag } => {
                    let mut r = Rng::new(*tag as u64 ^ 0xabcdef);
                    let mut b = vec![0u8; *len as usize];
                    r.fill(&mut b);
                    if b.len() >= 32 && *tag % 2 == 0 {
                        // give it a plausible type tag so that it gets past the first check
                        for x in b[..31].iter_mut() {
                            *x = 0;
                        }
                        b[31] = (*tag % 5) as u8;
                    }
                    ctx.judged(&["C10"], hash_of(&b), "decode-random", "");
                    ctx.count("F6.random_bytes");
                    if !check_bytes(&env, ctx, &b, "random bytes") {
                        break;
                    }
                    ctx.trace_u64(hash_of(&b));
                }
            }
            ctx.end_step();
        }
    }

    fn simplify(op: &COp) -> Vec<COp> {
        match op {
            COp::Hostile { base, .. } => vec![COp::Msg(base.clone())],
            _ => vec![],
        }
    }
}
