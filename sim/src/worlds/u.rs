//! World U: upgrade / migrate state machine of every upgradable contract and
//! the Upgrader's all-or-nothing two-step (C15, upgrade rows of C06).

use crate::common::{opt_abort, resolve_auth, AuthCtx, AuthVar};
use crate::engine::{Ctx, GenParams, World};
use crate::harness::derived_dummy::DerivedDummy;
use crate::harness::mirror_keys;
use crate::harness::native_dummy::NativeDummy;
use crate::host::{addr_bytes, AuthEntry, AuthNode, Ev, Sim};
use crate::judge::{after_call, must_fail};
use crate::oracle::*;
use crate::rng::{hash_of, Rng};
use axelar_gas_service::AxelarGasService;
use axelar_gateway::AxelarGateway;
use axelar_operators::AxelarOperators;
use interchain_token::InterchainToken;
use interchain_token_service::InterchainTokenService;
use serde::{Deserialize, Serialize};
use serde_json::{json, Value};
use soroban_sdk::testutils::Address as _;
use soroban_sdk::{Address, BytesN, IntoVal, String as SStr, TryFromVal, Val, Vec as SVec};
use soroban_token_sdk::metadata::TokenMetadata;
use upgrader::Upgrader;

const CONTRACT_WASM: &[u8] = include_bytes!("/repo/packages/axelar-soroban-std-derive/tests/testdata/contract.wasm");
const DUMMY_WASM: &[u8] = include_bytes!("/repo/contracts/upgrader/tests/testdata/dummy.wasm");

pub const NT: usize = 7;
pub const TARGET_NAMES: [&str; NT] = ["gateway", "gas-service", "operators", "its", "token", "derived-dummy", "native-dummy"];
pub const NP: usize = 4; // 0 owner, 1 second owner candidate, 2 other, 3 stranger
const STRANGER: usize = 3;

#[derive(Serialize, Deserialize, Clone, Debug)]
pub struct UCfg {}

#[derive(Serialize, Deserialize, Clone, Debug, PartialEq, Eq, Hash)]
pub enum WasmSel {
    Contract,
    Dummy,
    Bogus,
}

#[derive(Serialize, Deserialize, Clone, Debug, PartialEq, Eq, Hash)]
pub enum MigData {
    Unit,
    U32,
    Str,
    None,
}

#[derive(Serialize, Deserialize, Clone, Debug, PartialEq, Eq, Hash)]
pub enum VerSel {
    Same,
    Correct,
    Wrong,
    /// the version the new code reports, spelled as a release tag ("v" + version), with a
    /// trailing blank, or in another case: equal under a lenient comparison, not equal
    NearCorrect(u8),
    /// the current version spelled that way
    NearSame(u8),
}

#[derive(Serialize, Deserialize, Clone, Debug, PartialEq, Eq, Hash)]
pub enum Cover {
    Both,
    UpgradeOnly,
    MigrateOnly,
    Nobody,
    StrangerBoth,
    FormerBoth,
}

#[derive(Serialize, Deserialize, Clone, Debug, PartialEq, Eq, Hash)]
pub enum UOp {
    Upgrade { target: u8, wasm: WasmSel, auth: AuthVar, abort: Option<u16> },
    Migrate { target: u8, data: MigData, auth: AuthVar, abort: Option<u16> },
    /// the simulator opens the migration window directly (what `upgrade`
    /// does), so that the tree's own native `migrate` is reachable
    OpenWindow { target: u8 },
    /// harness action: bind the tree's native code to a target again after a real upgrade moved it to a
    /// pre-built wasm — the state the tree's own `upgrade` left behind (open window included) is then met
    /// by the tree's own `migrate`, as when a deployment upgrades to the build of this very tree
    Rebind { target: u8 },
    TransferOwnership { target: u8, to: u8, auth: AuthVar },
    ViaUpgrader { target: u8, version: VerSel, wasm: WasmSel, cover: Cover, data: MigData, abort: Option<u16> },
    /// the Upgrader drives the harness target whose version is state (see harness::labelled_target):
    /// requested version "0.<req>.0", code hash stamping "0.<hash_ver>.0", migration data re-stamping "0.<d>.0"
    UpgraderLabelled { req: u8, hash_ver: u8, data: Option<u8>, cover: Cover, abort: Option<u16> },
    /// migrate of the harness target whose migration installs the owner named in its data (the window is
    /// opened by the simulator first): `who` authorises, `new_owner` is the migration data
    MigrateOwnerSetter { new_owner: u8, auth: AuthVar, abort: Option<u16> },
    Advance { dseq: u32 },
    Resubmit { k: u16 },
}

impl UOp {
    fn kind(&self) -> &'static str {
        match self {
            UOp::Upgrade { .. } => "upgrade",
            UOp::Migrate { .. } => "migrate",
            UOp::OpenWindow { .. } => "open_window",
            UOp::Rebind { .. } => "rebind",
            UOp::TransferOwnership { .. } => "transfer_ownership",
            UOp::ViaUpgrader { .. } => "via_upgrader",
            UOp::UpgraderLabelled { .. } => "upgrader_labelled",
            UOp::MigrateOwnerSetter { .. } => "migrate_owner_setter",
            UOp::Advance { .. } => "advance",
            UOp::Resubmit { .. } => "resubmit",
        }
    }
}

#[derive(Clone, Copy, Debug, Hash, PartialEq, Eq)]
pub enum Code {
    Native,
    ContractWasm,
    DummyWasm,
}

#[derive(Clone, Debug, Hash)]
pub struct TModel {
    pub code: Code,
    pub window: bool,
    pub owner: usize,
    pub former: Option<usize>,
    pub upgrades: u32,
    pub migrations: u32,
}

pub struct UExec {
    pub sim: Sim,
    pub p: Vec<Address>,
    pub targets: Vec<Address>,
    pub upgrader: Address,
    pub m: Vec<TModel>,
    pub h_contract: BytesN<32>,
    pub h_dummy: BytesN<32>,
    pub v_contract: String,
    pub v_dummy: String,
    pub history: Vec<UOp>,
    pub labelled: Address,
    pub owner_setter: Address,
    /// model: owner of the owner-setting target
    pub os_owner: usize,
    /// model of the labelled target: the digit of its version label "0.<d>.0"
    pub label: u8,
}

pub struct WorldU;

/// a spelling a lenient comparison would identify with `v`
fn near_spelling(v: &str, k: u8) -> String {
    match k % 4 {
        0 => format!("v{}", v),
        1 => format!("{} ", v),
        2 => format!("V{}", v),
        _ => format!("{}.0", v),
    }
}

fn sstr_to_string(s: &SStr) -> String {
    let mut b = vec![0u8; s.len() as usize];
    s.copy_into_slice(&mut b);
    String::from_utf8_lossy(&b).to_string()
}

impl UExec {
    fn version_of(&self, t: usize) -> String {
        match self.m[t].code {
            Code::Native => "0.1.0".to_string(),
            Code::ContractWasm => self.v_contract.clone(),
            Code::DummyWasm => self.v_dummy.clone(),
        }
    }
    fn hash_of_sel(&self, w: &WasmSel) -> BytesN<32> {
        match w {
            WasmSel::Contract => self.h_contract.clone(),
            WasmSel::Dummy => self.h_dummy.clone(),
            WasmSel::Bogus => BytesN::from_array(&self.sim.env, &[0xee; 32]),
        }
    }
    fn mig_args(&self, d: &MigData) -> SVec<Val> {
        let env = &self.sim.env;
        let mut v: SVec<Val> = SVec::new(env);
        match d {
            MigData::Unit => v.push_back(().into_val(env)),
            MigData::U32 => v.push_back(7u32.into_val(env)),
            MigData::Str => v.push_back(SStr::from_str(env, "migration data").into_val(env)),
            MigData::None => {}
        }
        v
    }
    /// does `migrate` of the code currently installed accept these arguments?
    fn mig_args_ok(&self, code: Code, d: &MigData) -> bool {
        match code {
            Code::Native | Code::ContractWasm => *d == MigData::Unit,
            Code::DummyWasm => *d == MigData::Str,
        }
    }
    /// `upgrade` executed by the code currently installed: does it open the window?
    fn upgrade_opens_window(&self, t: usize) -> bool {
        match self.m[t].code {
            Code::Native => t != 6,
            Code::ContractWasm => true,
            Code::DummyWasm => false,
        }
    }
    fn model_upgrade(&mut self, t: usize, new_code: Code) {
        if self.upgrade_opens_window(t) {
            self.m[t].window = true;
        }
        self.m[t].code = new_code;
        self.m[t].upgrades += 1;
    }
    /// `migrate` executed by the installed code; Err = it must refuse
    fn model_migrate_check(&self, t: usize, d: &MigData) -> Result<(), &'static str> {
        let code = self.m[t].code;
        if t == 6 && code == Code::Native {
            return Err("no-migrate-entry-point");
        }
        if !self.mig_args_ok(code, d) {
            return Err("ill-typed-migration-data");
        }
        if code != Code::DummyWasm && !self.m[t].window {
            return Err("window-not-open");
        }
        Ok(())
    }
    fn model_migrate_apply(&mut self, t: usize) {
        if self.m[t].code != Code::DummyWasm {
            self.m[t].window = false;
        }
        self.m[t].migrations += 1;
    }
    fn window_flag(&self, t: usize) -> bool {
        let env = &self.sim.env;
        env.as_contract(&self.targets[t], || env.storage().instance().has(&mirror_keys::DataKey::Interfaces_Migrating))
    }

    fn owner_entries(&mut self, ctx: &mut Ctx, t: usize, func: &'static str, auth: AuthVar, args: &SVec<Val>, alt: &SVec<Val>) -> (Vec<AuthEntry>, bool) {
        let o = self.m[t].owner;
        let c = AuthCtx { right: o, former: self.m[t].former, other_role: 2, counterparty: 1, owner: o, stranger: STRANGER };
        if auth.is_fault() {
            ctx.count(&format!("F7.{}.{}", func, auth.name()));
        }
        match resolve_auth(&mut self.sim, auth, &c) {
            None => (vec![], false),
            Some((w, other)) => (vec![AuthEntry { who: self.p[w].clone(), root: AuthNode::new(&self.targets[t], func, if other { alt.clone() } else { args.clone() }) }], w == o && !other),
        }
    }

    pub fn run_op(&mut self, ctx: &mut Ctx, op: &UOp) {
        let env = self.sim.env.clone();
        match op {
            UOp::Upgrade { target, wasm, auth, abort } => {
                let t = *target as usize % NT;
                let taddr = self.targets[t].clone();
                let args: SVec<Val> = (self.hash_of_sel(wasm),).into_val(&env);
                let alt: SVec<Val> = (BytesN::from_array(&env, &[0x11; 32]),).into_val(&env);
                let (entries, ok) = self.owner_entries(ctx, t, "upgrade", *auth, &args, &alt);
                let expect: Option<&'static str> = if *wasm == WasmSel::Bogus { Some("unknown-code-hash") } else { None };
                let label = if !ok { "unauthorised" } else { expect.unwrap_or("accept") };
                ctx.judged(&["C15", "C06"], hash_of(&self.m) ^ t as u64, "upgrade", label);
                let res = self.sim.call(&taddr, "upgrade", args, &entries, *abort);
                ctx.note(|| format!("upgrade {} -> {:?} auth={:?} expect={} -> {}", TARGET_NAMES[t], wasm, auth, label, res.out.err_text()));
                if !after_call(ctx, &res, "upgrade", &["C15"]) {
                    return;
                }
                ctx.count(&format!("op.upgrade.{}.{}.{}", TARGET_NAMES[t], label, res.out.class()));
                if !ok {
                    must_fail(ctx, &res, &["C15", "C06"], &format!("upgrade/accepted-without-owner-auth:{}", auth.name()), "not authorised by the owner");
                    return;
                }
                if let Some(why) = expect {
                    must_fail(ctx, &res, &["C15"], &format!("upgrade/accepted:{}", why), why);
                    return;
                }
                if !ctx.check(res.out.is_ok(), &["C15"], "upgrade/owner-refused", || res.out.err_text()) {
                    return;
                }
                self.model_upgrade(t, if *wasm == WasmSel::Contract { Code::ContractWasm } else { Code::DummyWasm });
            }
            UOp::Migrate { target, data, auth, abort } => {
                let t = *target as usize % NT;
                let taddr = self.targets[t].clone();
                let args = self.mig_args(data);
                let alt = self.mig_args(&MigData::None);
                let (entries, mut ok) = self.owner_entries(ctx, t, "migrate", *auth, &args, &alt);
                if *auth == AuthVar::RightOtherArgs && *data == MigData::None {
                    ok = true; // the "other" arguments are the same arguments
                }
                let code = self.m[t].code;
                let expect: Option<&'static str> = self.model_migrate_check(t, data).err();
                if expect == Some("window-not-open") {
                    if self.m[t].migrations > 0 { ctx.count("probe.second_migration_attempt"); } else { ctx.count("probe.migration_without_upgrade"); }
                }
                let label = if expect.is_some() { expect.unwrap() } else if !ok { "unauthorised" } else { "accept" };
                ctx.judged(&["C15", "C06"], hash_of(&self.m) ^ t as u64, "migrate", label);
                let res = self.sim.call(&taddr, "migrate", args, &entries, *abort);
                ctx.note(|| format!("migrate {} code={:?} window={} data={:?} auth={:?} expect={} -> {}", TARGET_NAMES[t], code, self.m[t].window, data, auth, label, res.out.err_text()));
                if !after_call(ctx, &res, "migrate", &["C15"]) {
                    return;
                }
                ctx.count(&format!("op.migrate.{}.{:?}.{}.{}", TARGET_NAMES[t], code, label, res.out.class()));
                if let Some(why) = expect {
                    must_fail(ctx, &res, &["C15"], &format!("migrate/accepted:{}", why), why);
                    return;
                }
                if !ok {
                    must_fail(ctx, &res, &["C15", "C06"], &format!("migrate/accepted-without-owner-auth:{}", auth.name()), "not authorised by the owner");
                    return;
                }
                if !ctx.check(res.out.is_ok(), &["C15"], "migrate/valid-migration-refused", || res.out.err_text()) {
                    return;
                }
                if code == Code::Native {
                    ctx.count("probe.native_migrate_completed");
                }
                self.model_migrate_apply(t);
                if code != Code::DummyWasm {
                    let ver = self.version_of(t);
                    let ups: Vec<&Ev> = res.events.iter().filter(|e| e.contract == addr_bytes(&taddr) && e.name() == "upgraded").collect();
                    let exp = Ev { contract: addr_bytes(&taddr), topics: vec![sym("upgraded")], data: svec(vec![sstr(&ver)]) };
                    ctx.check(ups.len() == 1 && *ups[0] == exp, &["C15"], "migrate/version-not-announced", || format!("expected one upgraded({}) event, got {:?}", ver, res.events));
                }
            }
            UOp::OpenWindow { target } => {
                let t = *target as usize % 6;
                if self.m[t].code == Code::DummyWasm {
                    return;
                }
                let taddr = self.targets[t].clone();
                env.as_contract(&taddr, || env.storage().instance().set(&mirror_keys::DataKey::Interfaces_Migrating, &()));
                self.m[t].window = true;
                ctx.count("op.window_opened_by_simulator");
            }
            UOp::Rebind { target } => {
                let t = *target as usize % NT;
                if self.m[t].code == Code::Native || !matches!(t, 1 | 2 | 5) {
                    return;
                }
                let taddr = self.targets[t].clone();
                let owner = self.p[self.m[t].owner].clone();
                self.sim.setup_all_auths();
                match t {
                    1 => {
                        env.register_at(&taddr, AxelarGasService, (&owner, &self.p[2]));
                    }
                    2 => {
                        env.register_at(&taddr, AxelarOperators, (&owner,));
                    }
                    _ => {
                        env.register_at(&taddr, DerivedDummy, (&owner,));
                    }
                }
                self.sim.set_auth(&[]);
                let _ = self.sim.drain_events();
                self.m[t].code = Code::Native;
                ctx.count("op.native_code_rebound_after_upgrade");
            }
            UOp::TransferOwnership { target, to, auth } => {
                let t = *target as usize % NT;
                let taddr = self.targets[t].clone();
                let ti = *to as usize % NP;
                let args: SVec<Val> = (self.p[ti].clone(),).into_val(&env);
                let alt: SVec<Val> = (self.p[(ti + 1) % NP].clone(),).into_val(&env);
                let (entries, ok) = self.owner_entries(ctx, t, "transfer_ownership", *auth, &args, &alt);
                ctx.judged(&["C06"], hash_of(&self.m) ^ t as u64, "transfer_ownership", if ok { "accept" } else { "unauthorised" });
                let res = self.sim.call(&taddr, "transfer_ownership", args, &entries, None);
                if !after_call(ctx, &res, "transfer_ownership", &["C06"]) {
                    return;
                }
                if !ok {
                    must_fail(ctx, &res, &["C06"], &format!("transfer_ownership/accepted-without-holder-auth:{}", auth.name()), "not the owner");
                    return;
                }
                if !ctx.check(res.out.is_ok(), &["C06"], "role-transfer/holder-refused", || res.out.err_text()) {
                    return;
                }
                let o = self.m[t].owner;
                if ti != o {
                    self.m[t].former = Some(o);
                }
                self.m[t].owner = ti;
            }
            UOp::ViaUpgrader { target, version, wasm, cover, data, abort } => {
                let t = *target as usize % NT;
                let taddr = self.targets[t].clone();
                let code_before = self.m[t].code;
                let new_code = match wasm {
                    WasmSel::Contract => Some(Code::ContractWasm),
                    WasmSel::Dummy => Some(Code::DummyWasm),
                    WasmSel::Bogus => None,
                };
                let cur_ver = self.version_of(t);
                let after_ver = match new_code {
                    Some(Code::ContractWasm) => self.v_contract.clone(),
                    Some(Code::DummyWasm) => self.v_dummy.clone(),
                    _ => String::new(),
                };
                let req_ver = match version {
                    VerSel::Same => cur_ver.clone(),
                    VerSel::Correct => after_ver.clone(),
                    VerSel::Wrong => "9.9.9".to_string(),
                    VerSel::NearCorrect(k) => near_spelling(&after_ver, *k),
                    VerSel::NearSame(k) => near_spelling(&cur_ver, *k),
                };
                if matches!(version, VerSel::NearCorrect(_) | VerSel::NearSame(_)) {
                    ctx.count("probe.upgrader_version_requested_in_a_near_spelling");
                }
                let hash = self.hash_of_sel(wasm);
                let margs = self.mig_args(data);
                let args: SVec<Val> = (taddr.clone(), SStr::from_str(&env, &req_ver), hash.clone(), margs.clone()).into_val(&env);
                let o = self.m[t].owner;
                let up_node = AuthNode::new(&taddr, "upgrade", (hash.clone(),).into_val(&env));
                let mg_node = AuthNode::new(&taddr, "migrate", margs.clone());
                let who = |i: usize| self.p[i].clone();
                let (entries, covered): (Vec<AuthEntry>, bool) = match cover {
                    Cover::Both => (vec![AuthEntry { who: who(o), root: up_node }, AuthEntry { who: who(o), root: mg_node }], true),
                    Cover::UpgradeOnly => (vec![AuthEntry { who: who(o), root: up_node }], false),
                    Cover::MigrateOnly => (vec![AuthEntry { who: who(o), root: mg_node }], false),
                    Cover::Nobody => (vec![], false),
                    Cover::StrangerBoth => (vec![AuthEntry { who: who(STRANGER), root: up_node }, AuthEntry { who: who(STRANGER), root: mg_node }], STRANGER == o),
                    Cover::FormerBoth => {
                        let f = self.m[t].former.unwrap_or(STRANGER);
                        (vec![AuthEntry { who: who(f), root: up_node }, AuthEntry { who: who(f), root: mg_node }], f == o)
                    }
                };
                if *cover != Cover::Both {
                    ctx.count(&format!("F7.upgrader.{:?}", cover));
                }
                // what the two nested steps would do, on a copy of the model
                let saved = self.m[t].clone();
                let expect: Option<&'static str> = if req_ver == cur_ver {
                    ctx.count("probe.upgrader_same_version_requested");
                    Some("same-version-requested")
                } else if new_code.is_none() {
                    Some("unknown-code-hash")
                } else if !covered {
                    Some("owner-did-not-authorise-both-steps")
                } else {
                    self.model_upgrade(t, new_code.unwrap());
                    match self.model_migrate_check(t, data) {
                        Err(why) => Some(why),
                        Ok(()) => {
                            self.model_migrate_apply(t);
                            if req_ver != after_ver {
                                ctx.count("probe.upgrader_wrong_version_requested");
                                Some("version-after-upgrade-differs-from-requested")
                            } else {
                                None
                            }
                        }
                    }
                };
                let applied = self.m[t].clone();
                self.m[t] = saved;
                let label = expect.unwrap_or("accept");
                ctx.judged(&["C15"], hash_of(&self.m) ^ t as u64, "via_upgrader", label);
                let before = self.sim.digest_of(&taddr);
                let up = self.upgrader.clone();
                let res = self.sim.call(&up, "upgrade", args, &entries, *abort);
                let after = self.sim.digest_of(&taddr);
                ctx.note(|| format!("upgrader -> {} req={:?}({}) wasm={:?} cover={:?} data={:?} expect={} -> {}", TARGET_NAMES[t], version, req_ver, wasm, cover, data, label, res.out.err_text()));
                if !after_call(ctx, &res, "upgrader.upgrade", &["C15"]) {
                    return;
                }
                ctx.count(&format!("op.via_upgrader.{}.{}", label, res.out.class()));
                if let Some(why) = expect {
                    if !must_fail(ctx, &res, &["C15"], &format!("upgrader/completed-despite:{}", why), why) {
                        return;
                    }
                    ctx.check(before == after, &["C15"], "upgrader/failed-upgrade-changed-target", || "a failed upgrade through the Upgrader left the target's code, version or data changed".into());
                    return;
                }
                if !ctx.check(res.out.is_ok(), &["C15"], "upgrader/valid-upgrade-refused", || res.out.err_text()) {
                    return;
                }
                self.m[t] = applied;
                let _ = code_before;
                ctx.count("probe.upgrader_completed_both_steps");
            }
            UOp::UpgraderLabelled { req, hash_ver, data, cover, abort } => {
                let taddr = self.labelled.clone();
                let ver = |d: u8| format!("0.{}.0", d % 10);
                let (req, hv) = (*req % 10, *hash_ver % 10);
                let mut hb = [0x11u8; 32];
                hb[0] = hv;
                let hash = BytesN::from_array(&env, &hb);
                let md: Option<SStr> = data.map(|d| SStr::from_str(&env, &ver(d)));
                let margs: SVec<Val> = (md.clone(),).into_val(&env);
                let args: SVec<Val> = (taddr.clone(), SStr::from_str(&env, &ver(req)), hash.clone(), margs.clone()).into_val(&env);
                let up_node = AuthNode::new(&taddr, "upgrade", (hash.clone(),).into_val(&env));
                let mg_node = AuthNode::new(&taddr, "migrate", margs.clone());
                let who = |i: usize| self.p[i].clone();
                let (entries, covered): (Vec<AuthEntry>, bool) = match cover {
                    Cover::Both => (vec![AuthEntry { who: who(0), root: up_node }, AuthEntry { who: who(0), root: mg_node }], true),
                    Cover::UpgradeOnly => (vec![AuthEntry { who: who(0), root: up_node }], false),
                    Cover::MigrateOnly => (vec![AuthEntry { who: who(0), root: mg_node }], false),
                    Cover::Nobody => (vec![], false),
                    Cover::StrangerBoth | Cover::FormerBoth => (vec![AuthEntry { who: who(STRANGER), root: up_node }, AuthEntry { who: who(STRANGER), root: mg_node }], false),
                };
                if *cover != Cover::Both {
                    ctx.count(&format!("F7.upgrader.{:?}", cover));
                }
                let after_upgrade = hv;
                let after_migrate = data.map(|d| d % 10).unwrap_or(after_upgrade);
                let expect: Option<&'static str> = if req == self.label {
                    Some("same-version-requested")
                } else if !covered {
                    Some("owner-did-not-authorise-both-steps")
                } else if after_migrate != req {
                    if after_upgrade == req {
                        ctx.count("probe.upgrader_version_right_after_upgrade_wrong_after_migrate");
                    }
                    Some("version-after-migration-differs-from-requested")
                } else {
                    if after_upgrade != req {
                        ctx.count("probe.upgrader_version_right_only_after_migrate");
                    }
                    None
                };
                let label = expect.unwrap_or("accept");
                ctx.judged(&["C15"], hash_of(&self.label) ^ 0x1abe11ed, "upgrader_labelled", label);
                let before = self.sim.digest_of(&taddr);
                let up = self.upgrader.clone();
                let res = self.sim.call(&up, "upgrade", args, &entries, *abort);
                let after = self.sim.digest_of(&taddr);
                ctx.note(|| format!("upgrader -> labelled-target label={} req={} hash->{} data->{:?} cover={:?} expect={} -> {}", self.label, req, hv, data, cover, label, res.out.err_text()));
                if !after_call(ctx, &res, "upgrader.upgrade", &["C15"]) {
                    return;
                }
                ctx.count(&format!("op.upgrader_labelled.{}.{}", label, res.out.class()));
                if let Some(why) = expect {
                    if !must_fail(ctx, &res, &["C15"], &format!("upgrader/completed-despite:{}", why), why) {
                        return;
                    }
                    ctx.check(before == after, &["C15"], "upgrader/failed-upgrade-changed-target", || "a failed upgrade through the Upgrader left the target's version or data changed".into());
                    return;
                }
                if !ctx.check(res.out.is_ok(), &["C15"], "upgrader/valid-upgrade-refused", || res.out.err_text()) {
                    return;
                }
                self.label = after_migrate;
                ctx.count("probe.upgrader_completed_both_steps");
            }
            UOp::MigrateOwnerSetter { new_owner, auth, abort } => {
                let taddr = self.owner_setter.clone();
                let ni = *new_owner as usize % NP;
                // open the window as `upgrade` would
                env.as_contract(&taddr, || env.storage().instance().set(&mirror_keys::DataKey::Interfaces_Migrating, &()));
                let o = self.os_owner;
                let args: SVec<Val> = (self.p[ni].clone(),).into_val(&env);
                let alt: SVec<Val> = (self.p[(ni + 1) % NP].clone(),).into_val(&env);
                // the candidate principals include the owner the migration would install
                let c = AuthCtx { right: o, former: None, other_role: 2, counterparty: ni, owner: o, stranger: STRANGER };
                if auth.is_fault() {
                    ctx.count(&format!("F7.migrate_owner_setter.{}", auth.name()));
                }
                let (entries, ok) = match resolve_auth(&mut self.sim, *auth, &c) {
                    None => (vec![], false),
                    Some((w, other)) => (vec![AuthEntry { who: self.p[w].clone(), root: AuthNode::new(&taddr, "migrate", if other { alt } else { args.clone() }) }], w == o && !other),
                };
                let label = if ok { "accept" } else { "unauthorised" };
                ctx.judged(&["C15", "C06"], hash_of(&self.os_owner) ^ ni as u64, "migrate_owner_setter", label);
                let res = self.sim.call(&taddr, "migrate", args, &entries, *abort);
                ctx.note(|| format!("migrate owner-setter new_owner=p{} auth={:?} owner=p{} expect={} -> {}", ni, auth, o, label, res.out.err_text()));
                if !after_call(ctx, &res, "migrate", &["C15"]) {
                    return;
                }
                ctx.count(&format!("op.migrate_owner_setter.{}.{}", label, res.out.class()));
                if !ok {
                    if must_fail(ctx, &res, &["C15", "C06"], &format!("migrate/accepted-without-owner-auth:{}", auth.name()), "the migration ran without the authorisation of the owner at call time") {
                        // the refused call left the window open; close it again so that the next attempt starts clean
                        env.as_contract(&taddr, || env.storage().instance().remove(&mirror_keys::DataKey::Interfaces_Migrating));
                    }
                    return;
                }
                if !ctx.check(res.out.is_ok(), &["C15"], "migrate/valid-migration-refused", || res.out.err_text()) {
                    return;
                }
                self.os_owner = ni;
            }
            UOp::Advance { dseq } => {
                crate::common::advance_ledgers(&self.sim, ctx, *dseq);
            }
            UOp::Resubmit { .. } => {}
        }
    }

    pub fn invariants(&mut self, ctx: &mut Ctx) {
        let env = self.sim.env.clone();
        for t in 0..NT {
            let taddr = self.targets[t].clone();
            let v = self.sim.query(&taddr, "version", SVec::new(&env));
            let vv = v.val().and_then(|x| SStr::try_from_val(&env, &x).ok()).map(|s| sstr_to_string(&s));
            let want = self.version_of(t);
            if !ctx.check(vv.as_deref() == Some(&want), &["C15"], "invariant/version-differs", || format!("{} version() = {:?}, model {}", TARGET_NAMES[t], vv, want)) {
                return;
            }
            let flag = self.window_flag(t);
            if !ctx.check(flag == self.m[t].window, &["C15"], "invariant/migration-window-differs", || format!("{} migration window flag = {}, model {}", TARGET_NAMES[t], flag, self.m[t].window)) {
                return;
            }
            let o = self.sim.query(&taddr, "owner", SVec::new(&env));
            let ov = o.val().and_then(|x| Address::try_from_val(&env, &x).ok());
            if !ctx.check(ov.as_ref() == Some(&self.p[self.m[t].owner]), &["C06", "C15"], "invariant/owner-differs", || format!("{} owner() differs", TARGET_NAMES[t])) {
                return;
            }
        }
        let os = self.owner_setter.clone();
        let oo = self.sim.query(&os, "owner", SVec::new(&env));
        let oov = oo.val().and_then(|x| Address::try_from_val(&env, &x).ok());
        if !ctx.check(oov.as_ref() == Some(&self.p[self.os_owner]), &["C06", "C15"], "invariant/owner-differs", || "owner-setter owner() differs".to_string()) {
            return;
        }
        let lt = self.labelled.clone();
        let v = self.sim.query(&lt, "version", SVec::new(&env));
        let vv = v.val().and_then(|x| SStr::try_from_val(&env, &x).ok()).map(|s| sstr_to_string(&s));
        let want = format!("0.{}.0", self.label);
        if !ctx.check(vv.as_deref() == Some(&want), &["C15"], "invariant/version-differs", || format!("labelled-target version() = {:?}, model {}", vv, want)) {
            return;
        }
        let pend = self.sim.query(&lt, "pending", SVec::new(&env));
        let pv = pend.val().and_then(|x| bool::try_from_val(&env, &x).ok());
        ctx.check(pv == Some(false), &["C15"], "invariant/migration-window-differs", || "labelled-target is left between its two steps".into());
    }
}

impl World for WorldU {
    const NAME: &'static str = "U";
    type Cfg = UCfg;
    type Op = UOp;

    fn components() -> Value {
        json!({
            "real": ["axelar-soroban-std upgradable/ownable interfaces + derive macros (native, /repo) as instantiated in gateway, gas service, operators, ITS, interchain token and a harness contract using the derives", "upgrader (native, /repo)", "soroban-env-host 22.1 (code swap, instance storage, rollback)"],
            "stub": ["upgrade targets are PRE-BUILT wasm from the repository (cannot be rebuilt offline): packages/axelar-soroban-std-derive/tests/testdata/contract.wasm (derived upgrade/migrate of an older build of the same macro) and contracts/upgrader/tests/testdata/dummy.wasm (0.2.0, migrate(String))", "after a real upgrade the migrate that runs is the wasm's; the tree's native migrate is reached through a migration window opened by the simulator (reported separately as probe.native_migrate_completed)", "NativeDummy: harness copy of the repository's upgrader test dummy", "LabelledTarget: harness upgrade target whose version label is state stamped by upgrade and migrate (no code swap)"]
        })
    }

    fn generate(rng: &mut Rng, p: GenParams) -> (UCfg, Vec<UOp>) {
        let f_abort = p.faults && rng.chance(1, 2);
        let n = rng.range(6, if p.thorough { 30 } else { 20 }) as usize;
        let w: [u32; 8] = if p.focus == "C06" { [30, 25, 8, 25, 6, 6, 2, 6] } else { [24, 30, 12, 8, 20, if p.faults { 6 } else { 0 }, 8, 6] };
        let mut ops = vec![];
        // a run concentrates on few targets so that sequences get long enough
        let focus_targets: Vec<u8> = (0..rng.range(1, 3)).map(|_| rng.below(NT as u64) as u8).collect();
        for _ in 0..n {
            let target = if rng.chance(5, 6) { *rng.pick(&focus_targets) } else { rng.below(NT as u64) as u8 };
            let auth = if p.faults && rng.chance(2, 5) {
                *rng.pick(&[AuthVar::Former, AuthVar::OtherRole, AuthVar::Stranger, AuthVar::Nobody, AuthVar::RightOtherArgs])
            } else {
                AuthVar::Right
            };
            let abort = opt_abort(rng, f_abort, 120);
            let op = match rng.weighted(&w) {
                0 => UOp::Upgrade { target, wasm: match rng.weighted(&[8, if target as usize % NT == 6 { 8 } else { 1 }, 1]) { 0 => WasmSel::Contract, 1 => WasmSel::Dummy, _ => WasmSel::Bogus }, auth, abort },
                1 => UOp::Migrate { target, data: match rng.weighted(&[8, 1, if target as usize % NT == 6 { 6 } else { 1 }, 1]) { 0 => MigData::Unit, 1 => MigData::U32, 2 => MigData::Str, _ => MigData::None }, auth, abort },
                2 => UOp::OpenWindow { target },
                3 => UOp::TransferOwnership { target, to: rng.below(NP as u64) as u8, auth },
                4 => {
                    let dummy = target as usize % NT == 6;
                    UOp::ViaUpgrader {
                        target,
                        version: match rng.weighted(&[2, 6, 2, 2, 1]) { 0 => VerSel::Same, 1 => VerSel::Correct, 2 => VerSel::Wrong, 3 => VerSel::NearCorrect(rng.below(4) as u8), _ => VerSel::NearSame(rng.below(4) as u8) },
                        wasm: match rng.weighted(&[if dummy { 2 } else { 8 }, if dummy { 8 } else { 1 }, 1]) { 0 => WasmSel::Contract, 1 => WasmSel::Dummy, _ => WasmSel::Bogus },
                        cover: if p.faults && rng.chance(2, 5) { rng.pick(&[Cover::UpgradeOnly, Cover::MigrateOnly, Cover::Nobody, Cover::StrangerBoth, Cover::FormerBoth]).clone() } else { Cover::Both },
                        data: match rng.weighted(&[if dummy { 2 } else { 8 }, 1, if dummy { 8 } else { 1 }, 2]) { 0 => MigData::Unit, 1 => MigData::U32, 2 => MigData::Str, _ => MigData::None },
                        abort,
                    }
                }
                5 => UOp::Resubmit { k: rng.below(32) as u16 },
                7 => UOp::MigrateOwnerSetter {
                    new_owner: rng.below(NP as u64) as u8,
                    auth: if p.faults && rng.chance(1, 2) { *rng.pick(&[AuthVar::Counterparty, AuthVar::Stranger, AuthVar::Nobody, AuthVar::RightOtherArgs, AuthVar::Counterparty]) } else { AuthVar::Right },
                    abort,
                },
                _ => {
                    let req = rng.range(1, 4) as u8;
                    UOp::UpgraderLabelled {
                        req,
                        hash_ver: if rng.chance(1, 2) { req } else { rng.range(1, 4) as u8 },
                        data: match rng.weighted(&[3, 4, 3]) { 0 => None, 1 => Some(req), _ => Some(rng.range(1, 4) as u8) },
                        cover: if p.faults && rng.chance(1, 4) { rng.pick(&[Cover::UpgradeOnly, Cover::MigrateOnly, Cover::Nobody, Cover::StrangerBoth]).clone() } else { Cover::Both },
                        abort,
                    }
                }
            };
            let opened = matches!(op, UOp::OpenWindow { .. } | UOp::Upgrade { auth: AuthVar::Right, .. });
            let rebind = matches!(op, UOp::Upgrade { auth: AuthVar::Right, .. }) && rng.chance(1, 2);
            ops.push(op);
            if rebind {
                ops.push(UOp::Rebind { target });
                if rng.chance(1, 3) {
                    // the role moves while the migration is pending: who may run it now?
                    ops.push(UOp::TransferOwnership { target, to: rng.below(NP as u64) as u8, auth: AuthVar::Right });
                    ops.push(UOp::Migrate { target, data: MigData::Unit, auth: *rng.pick(&[AuthVar::Former, AuthVar::Right, AuthVar::Former]), abort: None });
                }
            }
            if rng.chance(1, 10) {
                ops.push(UOp::Advance { dseq: *rng.pick(&[1u32, 17, 100, 20_000, 1_100_000]) });
            }
            if opened && rng.chance(1, 2) {
                ops.push(UOp::Migrate { target, data: MigData::Unit, auth: if rng.chance(4, 5) { AuthVar::Right } else { AuthVar::Stranger }, abort: None });
                if rng.chance(1, 2) {
                    // and once more: must be refused
                    ops.push(UOp::Migrate { target, data: MigData::Unit, auth: AuthVar::Right, abort: None });
                }
            }
        }
        (UCfg {}, ops)
    }

    fn execute(_cfg: &UCfg, ops: &[UOp], ctx: &mut Ctx) {
        for p in ["probe.native_migrate_completed", "probe.second_migration_attempt", "probe.migration_without_upgrade", "probe.upgrader_same_version_requested", "probe.upgrader_wrong_version_requested", "probe.upgrader_completed_both_steps"] {
            if ctx.focus == "C15" {
                ctx.counters.entry(p.to_string()).or_insert(0);
            }
        }
        let mut sim = Sim::new(1_700_000_000, 10);
        let env = sim.env.clone();
        let p: Vec<Address> = (0..NP).map(|_| Address::generate(&env)).collect();
        sim.setup_all_auths();
        let keys = KeyPool::new(2);
        let set = MSet { signers: vec![MSigner { key: keys.pubs[0], weight: 1, key_id: Some(0) }], threshold: 1, nonce: [0; 32] };
        let mut init = SVec::new(&env);
        init.push_back(super::g_exec::mset_to_val(&env, &set));
        let gateway = env.register(AxelarGateway, (&p[0], &p[2], BytesN::from_array(&env, &[5u8; 32]), 0u64, 1u64, init));
        let gas = env.register(AxelarGasService, (&p[0], &p[2]));
        let operators = env.register(AxelarOperators, (&p[0],));
        let token_wasm = env.deployer().upload_contract_wasm(super::i_exec::TOKEN_WASM);
        let its = env.register(InterchainTokenService, (&p[0], &gateway, &gas, SStr::from_str(&env, "hub"), SStr::from_str(&env, "stellar"), token_wasm));
        let token = env.register(InterchainToken, (p[0].clone(), None::<Address>, BytesN::from_array(&env, &[4u8; 32]), TokenMetadata { decimal: 7, name: SStr::from_str(&env, "U"), symbol: SStr::from_str(&env, "U") }));
        let derived = env.register(DerivedDummy, (&p[0],));
        let ndummy = env.register(NativeDummy, (&p[0],));
        let upgrader = env.register(Upgrader, ());
        let labelled = env.register(crate::harness::labelled_target::LabelledTarget, (&p[0],));
        let owner_setter = env.register(crate::harness::owner_setter::OwnerSetter, (&p[0],));
        let h_contract = env.deployer().upload_contract_wasm(CONTRACT_WASM);
        let h_dummy = env.deployer().upload_contract_wasm(DUMMY_WASM);
        // what versions do the pre-built artefacts report?
        let pc = env.register(CONTRACT_WASM, (&p[0],));
        let pd = env.register(DUMMY_WASM, (&p[0],));
        let vq = |a: &Address| -> String {
            let v: SStr = env.invoke_contract(a, &soroban_sdk::Symbol::new(&env, "version"), SVec::new(&env));
            sstr_to_string(&v)
        };
        let v_contract = vq(&pc);
        let v_dummy = vq(&pd);
        ctx.note(|| format!("pre-built artefacts report versions contract.wasm={} dummy.wasm={}", v_contract, v_dummy));
        sim.end_setup();
        let targets = vec![gateway, gas, operators, its, token, derived, ndummy];
        let m: Vec<TModel> = (0..NT).map(|_| TModel { code: Code::Native, window: false, owner: 0, former: None, upgrades: 0, migrations: 0 }).collect();
        let mut ex = UExec { sim, p, targets, upgrader, m, h_contract, h_dummy, v_contract, v_dummy, history: vec![], labelled, label: 1, owner_setter, os_owner: 0 };
        ex.invariants(ctx);
        for (i, op) in ops.iter().enumerate() {
            if ctx.stopped() {
                break;
            }
            ctx.step = i;
            ex.sim.permissive_next = false;
            let eff = match op {
                UOp::Resubmit { k } => {
                    if ex.history.is_empty() {
                        ctx.end_step();
                        continue;
                    }
                    ctx.count("F1.resubmit");
                    ex.history[*k as usize % ex.history.len()].clone()
                }
                o => o.clone(),
            };
            ctx.trace_str(eff.kind());
            ex.run_op(ctx, &eff);
            if i % 3 == 1 && !ctx.stopped() {
                let mut addrs = ex.p.clone();
                addrs.extend(ex.targets.iter().cloned());
                let up = ex.upgrader.clone();
                crate::surface::probe_unlisted(ctx, &mut ex.sim, &up, "upgrader", &addrs, &["C15", "C06"], &["C15", "C06"]);
            }
            if !matches!(op, UOp::Resubmit { .. } | UOp::Advance { .. }) {
                ex.history.push(op.clone());
            }
            if !ctx.stopped() {
                ex.invariants(ctx);
            }
            ctx.trace_u64(hash_of(&ex.m));
            ctx.trace_u64(ex.sim.digest().0);
            ctx.end_step();
        }
        for (k, v) in std::mem::take(&mut ex.sim.counters) {
            ctx.count_n(&k, v);
        }
    }

    fn simplify(op: &UOp) -> Vec<UOp> {
        let mut o = op.clone();
        match &mut o {
            UOp::Upgrade { abort, .. } | UOp::Migrate { abort, .. } | UOp::ViaUpgrader { abort, .. } | UOp::UpgraderLabelled { abort, .. } | UOp::MigrateOwnerSetter { abort, .. } => {
                if abort.is_some() {
                    *abort = None;
                    return vec![o];
                }
            }
            _ => {}
        }
        vec![]
    }
}
