//! World T: the interchain token (native, from /repo) against a ledger model:
//! balances, allowances with expiry, minters, owner, supply, events (C12), and
//! the token rows of the authorisation matrices (C06, C07).

use crate::common::{opt_abort, resolve_auth, AuthCtx, AuthVar};
use crate::engine::{Ctx, GenParams, World};
use crate::host::{addr_bytes, AuthEntry, AuthNode, Ev, Sim, MAX_SEQ_ADVANCE};
use crate::judge::{after_call, must_fail};
use crate::oracle::*;
use crate::rng::{hash_of, Rng};
use interchain_token::InterchainToken;
use serde::{Deserialize, Serialize};
use serde_json::{json, Value};
use soroban_sdk::testutils::Address as _;
use soroban_sdk::xdr::ScVal;
use soroban_sdk::{Address, BytesN, IntoVal, String as SStr, TryFromVal, Val, Vec as SVec};
use soroban_token_sdk::metadata::TokenMetadata;
use std::collections::{BTreeMap, BTreeSet};

pub const NP: usize = 7; // 0 owner, 1 constructor minter, 2..=5 holders, 6 stranger
pub const NX: usize = 3; // receive-only addresses after the principals
const STRANGER: usize = 6;

#[derive(Serialize, Deserialize, Clone, Debug)]
pub struct TCfg {
    pub with_minter: bool,
    pub start_seq: u32,
    /// the constructor's designated minter is the owner itself
    #[serde(default)]
    pub minter_is_owner: bool,
}

#[derive(Serialize, Deserialize, Clone, Debug, PartialEq, Eq, Hash)]
pub enum Amt {
    Zero,
    One,
    Lit(i64),
    Balance,
    BalancePlus1,
    Allowance,
    AllowancePlus1,
    Half,
    Max,
    Neg,
}

#[derive(Serialize, Deserialize, Clone, Debug, PartialEq, Eq, Hash)]
pub enum Exp {
    Past(u32),
    Now,
    Future(u32),
    /// the expiration already stored for this (holder, spender) pair, if any
    Same,
}

#[derive(Serialize, Deserialize, Clone, Debug, PartialEq, Eq, Hash)]
pub enum TOp {
    MintFrom { minter: u8, to: u8, amount: Amt, auth: AuthVar, abort: Option<u16> },
    Mint { to: u8, amount: Amt, auth: AuthVar, abort: Option<u16> },
    Transfer { from: u8, to: u8, amount: Amt, auth: AuthVar, abort: Option<u16> },
    Approve { from: u8, spender: u8, amount: Amt, exp: Exp, auth: AuthVar, abort: Option<u16> },
    TransferFrom { spender: u8, from: u8, to: u8, amount: Amt, auth: AuthVar, abort: Option<u16> },
    Burn { from: u8, amount: Amt, auth: AuthVar, abort: Option<u16> },
    BurnFrom { spender: u8, from: u8, amount: Amt, auth: AuthVar, abort: Option<u16> },
    AddMinter { who: u8, auth: AuthVar, abort: Option<u16> },
    RemoveMinter { who: u8, auth: AuthVar, abort: Option<u16> },
    TransferOwnership { to: u8, via_set_admin: bool, auth: AuthVar, abort: Option<u16> },
    Advance { dseq: u32 },
    Resubmit { k: u16 },
}

impl TOp {
    fn kind(&self) -> &'static str {
        match self {
            TOp::MintFrom { .. } => "mint_from",
            TOp::Mint { .. } => "mint",
            TOp::Transfer { .. } => "transfer",
            TOp::Approve { .. } => "approve",
            TOp::TransferFrom { .. } => "transfer_from",
            TOp::Burn { .. } => "burn",
            TOp::BurnFrom { .. } => "burn_from",
            TOp::AddMinter { .. } => "add_minter",
            TOp::RemoveMinter { .. } => "remove_minter",
            TOp::TransferOwnership { .. } => "transfer_ownership",
            TOp::Advance { .. } => "advance",
            TOp::Resubmit { .. } => "resubmit",
        }
    }
}

#[derive(Clone, Debug, Hash, Default)]
pub struct TModel {
    pub owner: usize,
    pub former_owner: Option<usize>,
    pub minters: BTreeSet<usize>,
    pub balance: BTreeMap<usize, i128>,
    pub allowance: BTreeMap<(usize, usize), (i128, u32)>,
    pub minted: u128,
    pub burned: u128,
}

impl TModel {
    pub fn bal(&self, p: usize) -> i128 {
        *self.balance.get(&p).unwrap_or(&0)
    }
    pub fn allow(&self, from: usize, sp: usize, seq: u32) -> i128 {
        match self.allowance.get(&(from, sp)) {
            Some((a, e)) if *e >= seq => *a,
            _ => 0,
        }
    }
}

pub struct TExec {
    pub sim: Sim,
    pub token: Address,
    pub p: Vec<Address>,
    pub m: TModel,
    pub history: Vec<TOp>,
}

#[derive(PartialEq, Clone, Copy, Debug)]
enum Exp3 {
    Ok,
    Fail(&'static str),
    Either,
}

pub struct WorldT;

const T_ALL: &[&str] = &["C12"];

impl TExec {
    fn amt(&self, a: &Amt, from: usize, spender: Option<usize>) -> i128 {
        let seq = self.sim.seq();
        let bal = self.m.bal(from);
        let al = spender.map(|s| self.m.allow(from, s, seq)).unwrap_or(0);
        match a {
            Amt::Zero => 0,
            Amt::One => 1,
            Amt::Lit(v) => *v as i128,
            Amt::Balance => bal,
            Amt::BalancePlus1 => bal.saturating_add(1),
            Amt::Allowance => al,
            Amt::AllowancePlus1 => al.saturating_add(1),
            Amt::Half => bal / 2,
            Amt::Max => i128::MAX,
            Amt::Neg => -1,
        }
    }

    fn entries(&mut self, ctx: &mut Ctx, func: &'static str, auth: AuthVar, c: &AuthCtx, args: &SVec<Val>, alt: &SVec<Val>) -> (Vec<AuthEntry>, bool) {
        if auth.is_fault() {
            ctx.count(&format!("F7.{}.{}", func, auth.name()));
        }
        match resolve_auth(&mut self.sim, auth, c) {
            None => (vec![], false),
            Some((w, other)) => (
                vec![AuthEntry {
                    who: self.p[w].clone(),
                    root: AuthNode::new(&self.token, func, if other { alt.clone() } else { args.clone() }),
                }],
                w == c.right && !other,
            ),
        }
    }

    /// run one token call and judge it; `apply` mutates the model on success
    /// and returns the events the call must have emitted
    #[allow(clippy::too_many_arguments)]
    fn judge(
        &mut self,
        ctx: &mut Ctx,
        func: &'static str,
        args: SVec<Val>,
        entries: Vec<AuthEntry>,
        abort: Option<u16>,
        expect: Exp3,
        auth_ok: bool,
        auth_props: &[&'static str],
        apply: impl FnOnce(&mut TExec) -> Vec<Ev>,
    ) {
        let sh = hash_of(&self.m);
        let label = match (auth_ok, expect) {
            (false, _) => "unauthorised",
            (_, Exp3::Ok) => "accept",
            (_, Exp3::Fail(w)) => w,
            (_, Exp3::Either) => "either",
        };
        ctx.judged(&["C12", "C06", "C07"], sh, func, label);
        let res = self.sim.call(&self.token.clone(), func, args, &entries, abort);
        ctx.note(|| format!("{} expect={} -> {}", func, label, res.out.err_text()));
        if !after_call(ctx, &res, func, T_ALL) {
            return;
        }
        ctx.count(&format!("op.{}.{}.{}", func, label, res.out.class()));
        if !auth_ok {
            must_fail(ctx, &res, auth_props, &format!("{}/accepted-without-required-auth", func), "required principal did not authorise this call");
            return;
        }
        match expect {
            Exp3::Fail(why) => {
                // an allowance is the holder's standing authorisation: a delegated debit
                // without a live, sufficient allowance is also a debit without authorisation
                // ... and a negative amount moves value the other way: the address that would be
                // debited (the receiver of a negative transfer or mint) authorised nothing
                let tags: &[&'static str] = if why.ends_with("-allowance") || why == "negative-amount" { &["C12", "C07"] } else { &["C12"] };
                must_fail(ctx, &res, tags, &format!("{}/accepted:{}", func, why), why);
            }
            Exp3::Either if res.out.is_err() => {
                ctx.check(res.unchanged_full() && res.events.is_empty(), &["C12"], "refused-call-changed-state", || "refused call changed the ledger".into());
            }
            _ => {
                if expect == Exp3::Ok && !ctx.check(res.out.is_ok(), &["C12"], &format!("{}/valid-call-refused", func), || {
                    format!("{}: a call the token rules allow was refused: {}", func, res.out.err_text())
                }) {
                    return;
                }
                let exp_events = apply(self);
                ctx.check(crate::judge::events_match(&res.events, &exp_events, &["transfer", "mint", "burn", "approve", "set_admin", "clawback"]), &["C12"], &format!("{}/wrong-events", func), || {
                    format!("{}: expected events {:?}, got {:?}", func, exp_events, res.events)
                });
            }
        }
    }

    fn ev(&self, topics: Vec<ScVal>, data: ScVal) -> Ev {
        Ev { contract: addr_bytes(&self.token), topics, data }
    }

    pub fn run_op(&mut self, ctx: &mut Ctx, op: &TOp) {
        let env = self.sim.env.clone();
        let seq = self.sim.seq();
        let pi = |x: u8| x as usize % NP;
        // receivers 100.. : addresses that only ever receive (the all-zero account, the account twin
        // of a holder's contract address, the token contract itself)
        let ri = |x: u8| if x >= 100 { NP + (x as usize - 100) % NX } else { x as usize % NP };
        let cp = |i: usize| if i >= NP { STRANGER } else { i };
        match op {
            TOp::MintFrom { minter, to, amount, auth, abort } => {
                let (mi, ti) = (pi(*minter), ri(*to));
                let a = self.amt(amount, ti, None);
                let args: SVec<Val> = (self.p[mi].clone(), self.p[ti].clone(), a).into_val(&env);
                let alt: SVec<Val> = (self.p[mi].clone(), self.p[ti].clone(), a.wrapping_add(1)).into_val(&env);
                let c = AuthCtx { right: mi, former: None, other_role: self.m.owner, counterparty: cp(ti), owner: self.m.owner, stranger: STRANGER };
                let (entries, ok) = self.entries(ctx, "mint_from", *auth, &c, &args, &alt);
                let expect = if !self.m.minters.contains(&mi) {
                    if mi == self.m.owner { ctx.count("probe.owner_without_minter_status_mints"); }
                    Exp3::Fail("not-a-minter")
                } else if a < 0 {
                    Exp3::Fail("negative-amount")
                } else if self.m.bal(ti).checked_add(a).is_none() {
                    Exp3::Fail("receiver-balance-would-overflow")
                } else {
                    Exp3::Ok
                };
                self.judge(ctx, "mint_from", args, entries, *abort, expect, ok, &["C07"], |s| {
                    *s.m.balance.entry(ti).or_insert(0) += a;
                    s.m.minted = s.m.minted.wrapping_add(a as u128);
                    vec![s.ev(vec![sym("mint"), saddr(&s.p[mi]), saddr(&s.p[ti])], si128(a))]
                });
            }
            TOp::Mint { to, amount, auth, abort } => {
                let ti = ri(*to);
                let a = self.amt(amount, ti, None);
                let o = self.m.owner;
                let args: SVec<Val> = (self.p[ti].clone(), a).into_val(&env);
                let alt: SVec<Val> = (self.p[ti].clone(), a.wrapping_add(1)).into_val(&env);
                let other = self.m.minters.iter().copied().find(|x| *x != o).unwrap_or(STRANGER);
                let c = AuthCtx { right: o, former: self.m.former_owner, other_role: other, counterparty: cp(ti), owner: o, stranger: STRANGER };
                let (entries, ok) = self.entries(ctx, "mint", *auth, &c, &args, &alt);
                let expect = if !self.m.minters.contains(&o) {
                    ctx.count("probe.owner_without_minter_status_mints");
                    Exp3::Fail("owner-is-not-a-minter")
                } else if a < 0 {
                    Exp3::Fail("negative-amount")
                } else if self.m.bal(ti).checked_add(a).is_none() {
                    Exp3::Fail("receiver-balance-would-overflow")
                } else {
                    Exp3::Ok
                };
                self.judge(ctx, "mint", args, entries, *abort, expect, ok, &["C06"], |s| {
                    *s.m.balance.entry(ti).or_insert(0) += a;
                    s.m.minted = s.m.minted.wrapping_add(a as u128);
                    vec![s.ev(vec![sym("mint"), saddr(&s.p[o]), saddr(&s.p[ti])], si128(a))]
                });
            }
            TOp::Transfer { from, to, amount, auth, abort } => {
                let (fi, ti) = (pi(*from), ri(*to));
                let a = self.amt(amount, fi, None);
                let args: SVec<Val> = (self.p[fi].clone(), self.p[ti].clone(), a).into_val(&env);
                let alt: SVec<Val> = (self.p[fi].clone(), self.p[ti].clone(), a.wrapping_add(1)).into_val(&env);
                let c = AuthCtx { right: fi, former: None, other_role: self.m.owner, counterparty: cp(ti), owner: self.m.owner, stranger: STRANGER };
                let (entries, ok) = self.entries(ctx, "transfer", *auth, &c, &args, &alt);
                if fi == ti { ctx.count("probe.transfer_to_self"); }
                let expect = if a < 0 {
                    Exp3::Fail("negative-amount")
                } else if self.m.bal(fi) < a {
                    Exp3::Fail("insufficient-balance")
                } else if fi != ti && self.m.bal(ti).checked_add(a).is_none() {
                    Exp3::Fail("receiver-balance-would-overflow")
                } else {
                    Exp3::Ok
                };
                self.judge(ctx, "transfer", args, entries, *abort, expect, ok, &["C07"], |s| {
                    *s.m.balance.entry(fi).or_insert(0) -= a;
                    *s.m.balance.entry(ti).or_insert(0) += a;
                    vec![s.ev(vec![sym("transfer"), saddr(&s.p[fi]), saddr(&s.p[ti])], si128(a))]
                });
            }
            TOp::Approve { from, spender, amount, exp, auth, abort } => {
                let (fi, si) = (pi(*from), pi(*spender));
                let a = self.amt(amount, fi, Some(si));
                let e: u32 = match exp {
                    Exp::Past(k) => seq.saturating_sub((*k).max(1)),
                    Exp::Now => seq,
                    Exp::Future(k) => seq + *k,
                    Exp::Same => match self.m.allowance.get(&(fi, si)) {
                        Some((_, ex)) if *ex >= seq => {
                            ctx.count("probe.reapprove_with_the_stored_expiration");
                            *ex
                        }
                        _ => seq + 20,
                    },
                };
                let args: SVec<Val> = (self.p[fi].clone(), self.p[si].clone(), a, e).into_val(&env);
                let alt: SVec<Val> = (self.p[fi].clone(), self.p[si].clone(), a.wrapping_add(1), e).into_val(&env);
                let c = AuthCtx { right: fi, former: None, other_role: self.m.owner, counterparty: si, owner: self.m.owner, stranger: STRANGER };
                let (entries, ok) = self.entries(ctx, "approve", *auth, &c, &args, &alt);
                let expect = if a < 0 {
                    Exp3::Fail("negative-amount")
                } else if a > 0 && e < seq {
                    ctx.count("probe.approve_already_expired");
                    Exp3::Fail("expiration-in-the-past")
                } else if a > 0 && e - seq > 100_000 {
                    Exp3::Either
                } else {
                    if a > 0 && e == seq { ctx.count("probe.approve_expiring_this_ledger"); }
                    if self.m.allowance.get(&(fi, si)).map(|(x, ex)| *x > 0 && *ex < seq).unwrap_or(false) { ctx.count("probe.reapprove_after_expiry"); }
                    Exp3::Ok
                };
                self.judge(ctx, "approve", args, entries, *abort, expect, ok, &["C07"], |s| {
                    s.m.allowance.insert((fi, si), (a, e));
                    vec![s.ev(vec![sym("approve"), saddr(&s.p[fi]), saddr(&s.p[si])], svec(vec![si128(a), su32(e)]))]
                });
            }
            TOp::TransferFrom { spender, from, to, amount, auth, abort } => {
                let (si, fi, ti) = (pi(*spender), pi(*from), ri(*to));
                let a = self.amt(amount, fi, Some(si));
                let args: SVec<Val> = (self.p[si].clone(), self.p[fi].clone(), self.p[ti].clone(), a).into_val(&env);
                let alt: SVec<Val> = (self.p[si].clone(), self.p[fi].clone(), self.p[ti].clone(), a.wrapping_add(1)).into_val(&env);
                let c = AuthCtx { right: si, former: None, other_role: self.m.owner, counterparty: fi, owner: self.m.owner, stranger: STRANGER };
                let (entries, ok) = self.entries(ctx, "transfer_from", *auth, &c, &args, &alt);
                let al = self.m.allow(fi, si, seq);
                let stored = self.m.allowance.get(&(fi, si)).copied();
                let expect = self.delegated_expect(ctx, a, al, stored, seq, fi, Some(ti));
                self.judge(ctx, "transfer_from", args, entries, *abort, expect, ok, &["C07"], |s| {
                    if a > 0 {
                        let ex = s.m.allowance.get(&(fi, si)).map(|x| x.1).unwrap_or(0);
                        s.m.allowance.insert((fi, si), (al - a, ex));
                    }
                    *s.m.balance.entry(fi).or_insert(0) -= a;
                    *s.m.balance.entry(ti).or_insert(0) += a;
                    vec![s.ev(vec![sym("transfer"), saddr(&s.p[fi]), saddr(&s.p[ti])], si128(a))]
                });
            }
            TOp::Burn { from, amount, auth, abort } => {
                let fi = pi(*from);
                let a = self.amt(amount, fi, None);
                let args: SVec<Val> = (self.p[fi].clone(), a).into_val(&env);
                let alt: SVec<Val> = (self.p[fi].clone(), a.wrapping_add(1)).into_val(&env);
                let c = AuthCtx { right: fi, former: None, other_role: self.m.owner, counterparty: (fi + 1) % NP, owner: self.m.owner, stranger: STRANGER };
                let (entries, ok) = self.entries(ctx, "burn", *auth, &c, &args, &alt);
                let expect = if a < 0 { Exp3::Fail("negative-amount") } else if self.m.bal(fi) < a { Exp3::Fail("insufficient-balance") } else { Exp3::Ok };
                self.judge(ctx, "burn", args, entries, *abort, expect, ok, &["C07"], |s| {
                    *s.m.balance.entry(fi).or_insert(0) -= a;
                    s.m.burned = s.m.burned.wrapping_add(a as u128);
                    vec![s.ev(vec![sym("burn"), saddr(&s.p[fi])], si128(a))]
                });
            }
            TOp::BurnFrom { spender, from, amount, auth, abort } => {
                let (si, fi) = (pi(*spender), pi(*from));
                let a = self.amt(amount, fi, Some(si));
                let args: SVec<Val> = (self.p[si].clone(), self.p[fi].clone(), a).into_val(&env);
                let alt: SVec<Val> = (self.p[si].clone(), self.p[fi].clone(), a.wrapping_add(1)).into_val(&env);
                let c = AuthCtx { right: si, former: None, other_role: self.m.owner, counterparty: fi, owner: self.m.owner, stranger: STRANGER };
                let (entries, ok) = self.entries(ctx, "burn_from", *auth, &c, &args, &alt);
                let al = self.m.allow(fi, si, seq);
                let stored = self.m.allowance.get(&(fi, si)).copied();
                let expect = self.delegated_expect(ctx, a, al, stored, seq, fi, None);
                self.judge(ctx, "burn_from", args, entries, *abort, expect, ok, &["C07"], |s| {
                    if a > 0 {
                        let ex = s.m.allowance.get(&(fi, si)).map(|x| x.1).unwrap_or(0);
                        s.m.allowance.insert((fi, si), (al - a, ex));
                        if al - a == 0 { /* delegated burn to zero allowance */ }
                    }
                    *s.m.balance.entry(fi).or_insert(0) -= a;
                    s.m.burned = s.m.burned.wrapping_add(a as u128);
                    vec![s.ev(vec![sym("burn"), saddr(&s.p[fi])], si128(a))]
                });
            }
            TOp::AddMinter { who, auth, abort } | TOp::RemoveMinter { who, auth, abort } => {
                let add = matches!(op, TOp::AddMinter { .. });
                let wi = pi(*who);
                let func: &'static str = if add { "add_minter" } else { "remove_minter" };
                let o = self.m.owner;
                let args: SVec<Val> = (self.p[wi].clone(),).into_val(&env);
                let alt: SVec<Val> = (self.p[(wi + 1) % NP].clone(),).into_val(&env);
                let other = self.m.minters.iter().copied().find(|x| *x != o).unwrap_or(STRANGER);
                let c = AuthCtx { right: o, former: self.m.former_owner, other_role: other, counterparty: wi, owner: o, stranger: STRANGER };
                let (entries, ok) = self.entries(ctx, func, *auth, &c, &args, &alt);
                self.judge(ctx, func, args, entries, *abort, Exp3::Ok, ok, &["C06"], |s| {
                    if add { s.m.minters.insert(wi); } else { s.m.minters.remove(&wi); }
                    vec![s.ev(vec![sym(if add { "minter_added" } else { "minter_removed" }), saddr(&s.p[wi])], ScVal::Void)]
                });
            }
            TOp::TransferOwnership { to, via_set_admin, auth, abort } => {
                let ti = pi(*to);
                let func: &'static str = if *via_set_admin { "set_admin" } else { "transfer_ownership" };
                let o = self.m.owner;
                let args: SVec<Val> = (self.p[ti].clone(),).into_val(&env);
                let alt: SVec<Val> = (self.p[(ti + 1) % NP].clone(),).into_val(&env);
                let other = self.m.minters.iter().copied().find(|x| *x != o).unwrap_or(STRANGER);
                let c = AuthCtx { right: o, former: self.m.former_owner, other_role: other, counterparty: cp(ti), owner: o, stranger: STRANGER };
                let (entries, ok) = self.entries(ctx, func, *auth, &c, &args, &alt);
                if ti == o { ctx.count("probe.ownership_transfer_to_self"); }
                self.judge(ctx, func, args, entries, *abort, Exp3::Ok, ok, &["C06"], |s| {
                    if ti != o { s.m.former_owner = Some(o); }
                    s.m.owner = ti;
                    vec![
                        s.ev(vec![sym("ownership_transferred"), saddr(&s.p[o]), saddr(&s.p[ti])], svec(vec![])),
                        s.ev(vec![sym("set_admin"), saddr(&s.p[o])], saddr(&s.p[ti])),
                    ]
                });
            }
            TOp::Advance { dseq } => {
                let room = (self.sim.start_seq + MAX_SEQ_ADVANCE).saturating_sub(seq);
                let d = (*dseq).min(room);
                self.sim.set_seq(seq + d);
                self.sim.set_time(self.sim.now() + 5 * d as u64);
                ctx.sim_ledgers += d as u64;
                ctx.sim_seconds += 5 * d as u64;
                ctx.count("F10.ledger_advance");
                ctx.trace_u64(d as u64);
            }
            TOp::Resubmit { .. } => {}
        }
    }

    fn delegated_expect(&mut self, ctx: &mut Ctx, a: i128, al: i128, stored: Option<(i128, u32)>, seq: u32, fi: usize, to: Option<usize>) -> Exp3 {
        if let Some((x, e)) = stored {
            if x > 0 && e == seq { ctx.count("probe.spend_at_expiration_ledger"); }
            if x > 0 && e + 1 == seq { ctx.count("probe.spend_one_ledger_after_expiration"); }
        }
        if a < 0 {
            Exp3::Fail("negative-amount")
        } else if al < a {
            match stored {
                None => Exp3::Fail("never-granted-allowance"),
                Some((x, e)) if e < seq && x >= a => Exp3::Fail("expired-allowance"),
                _ => Exp3::Fail("insufficient-allowance"),
            }
        } else if self.m.bal(fi) < a {
            Exp3::Fail("insufficient-balance")
        } else if a == 0 && al == 0 {
            // nothing is spent and nothing moves; the statement does not say
            // whether this counts as "rejected"
            Exp3::Either
        } else if let Some(t) = to {
            if t != fi && self.m.bal(t).checked_add(a).is_none() { Exp3::Fail("receiver-balance-would-overflow") } else { Exp3::Ok }
        } else {
            Exp3::Ok
        }
    }

    /// all balances and all allowance pairs against the model; supply equation
    pub fn invariants(&mut self, ctx: &mut Ctx) {
        let env = self.sim.env.clone();
        let seq = self.sim.seq();
        let mut sum: u128 = 0;
        for i in 0..self.p.len() {
            let b = self.sim.query(&self.token.clone(), "balance", (self.p[i].clone(),).into_val(&env));
            let bv = b.val().and_then(|v| i128::try_from_val(&env, &v).ok());
            if !ctx.check(bv == Some(self.m.bal(i)), &["C12", "C07"], "invariant/balance-differs", || {
                format!("balance(p{}) = {:?}, ledger model says {}", i, bv, self.m.bal(i))
            }) {
                return;
            }
            if !ctx.check(bv.unwrap_or(0) >= 0, &["C12"], "invariant/negative-balance", || "negative balance".into()) {
                return;
            }
            sum = sum.wrapping_add(bv.unwrap_or(0) as u128);
        }
        if !ctx.check(sum == self.m.minted.wrapping_sub(self.m.burned), &["C12"], "invariant/supply-equation", || {
            format!("sum of balances {} != minted {} - burned {}", sum, self.m.minted, self.m.burned)
        }) {
            return;
        }
        for f in 0..NP {
            for s in 0..NP {
                if !self.m.allowance.contains_key(&(f, s)) && (f + s + ctx.step) % 5 != 0 {
                    continue; // never-granted pairs are sampled, granted pairs always read
                }
                let a = self.sim.query(&self.token.clone(), "allowance", (self.p[f].clone(), self.p[s].clone()).into_val(&env));
                let av = a.val().and_then(|v| i128::try_from_val(&env, &v).ok());
                let want = self.m.allow(f, s, seq);
                if !ctx.check(av == Some(want), &["C12", "C07"], "invariant/allowance-differs", || {
                    format!("allowance(p{},p{}) = {:?} at ledger {}, model says {} (stored {:?})", f, s, av, seq, want, self.m.allowance.get(&(f, s)))
                }) {
                    return;
                }
            }
        }
        for i in 0..NP {
            let q = self.sim.query(&self.token.clone(), "is_minter", (self.p[i].clone(),).into_val(&env));
            let qv = q.val().and_then(|v| bool::try_from(v).ok());
            if !ctx.check(qv == Some(self.m.minters.contains(&i)), &["C12", "C06"], "invariant/minter-set-differs", || {
                format!("is_minter(p{}) = {:?}", i, qv)
            }) {
                return;
            }
        }
        let o = self.sim.query(&self.token.clone(), "owner", SVec::new(&env));
        let ov = o.val().and_then(|v| Address::try_from_val(&env, &v).ok());
        ctx.check(ov.as_ref() == Some(&self.p[self.m.owner]), &["C06", "C12"], "invariant/owner-differs", || "owner() differs from the transfer history".into());
    }
}

impl World for WorldT {
    const NAME: &'static str = "T";
    type Cfg = TCfg;
    type Op = TOp;

    fn components() -> Value {
        json!({
            "real": ["interchain-token (native, /repo)", "axelar-soroban-std (native, /repo)", "soroban-token-sdk events/metadata", "soroban-env-host 22.1 (auth, storage incl. temporary-entry TTL, rollback, budget)"],
            "stub": ["owner, minters, holders, spenders: generated addresses with mock account contracts"]
        })
    }

    fn generate(rng: &mut Rng, p: GenParams) -> (TCfg, Vec<TOp>) {
        let f_auth = p.faults && rng.chance(3, 4);
        let f_abort = p.faults && rng.chance(1, 2);
        let f_dup = p.faults && rng.chance(3, 4);
        let f_clock = rng.chance(4, 5);
        let cfg = TCfg { with_minter: rng.chance(2, 3), start_seq: *rng.pick(&[0u32, 1, 100, 100_000]), minter_is_owner: rng.chance(1, 6) };
        // mint_from mint transfer approve transfer_from burn burn_from add rm owner advance resubmit
        let w: [u32; 12] = match p.focus {
            "C06" => [6, 10, 3, 3, 2, 1, 1, 16, 14, 22, 3, if f_dup { 8 } else { 0 }],
            "C07" => [12, 2, 16, 14, 16, 10, 12, 2, 2, 3, 4, if f_dup { 8 } else { 0 }],
            _ => [12, 4, 12, 16, 16, 6, 10, 3, 3, 3, if f_clock { 12 } else { 2 }, if f_dup { 6 } else { 0 }],
        };
        let n = rng.range(20, if p.thorough { 80 } else { 60 }) as usize;
        let holder = |rng: &mut Rng| rng.range(2, 5) as u8;
        let anyp = |rng: &mut Rng| if rng.chance(4, 5) { rng.range(2, 5) as u8 } else { rng.below(NP as u64) as u8 };
        let anyto = |rng: &mut Rng| if rng.chance(1, 10) { 100 + rng.below(NX as u64) as u8 } else if rng.chance(4, 5) { rng.range(2, 5) as u8 } else { rng.below(NP as u64) as u8 };
        let amt = |rng: &mut Rng, delegated: bool| -> Amt {
            match rng.weighted(&[if delegated { 1 } else { 2 }, 3, if delegated { 12 } else { 8 }, 4, 3, if delegated { 4 } else { 0 }, if delegated { 4 } else { 0 }, 4, 1, 2]) {
                0 => Amt::Zero,
                1 => Amt::One,
                2 => Amt::Lit(if delegated { rng.range(1, 60) } else { rng.range(1, 1000) } as i64),
                3 => Amt::Balance,
                4 => Amt::BalancePlus1,
                5 => Amt::Allowance,
                6 => Amt::AllowancePlus1,
                7 => Amt::Half,
                8 => Amt::Max,
                _ => Amt::Neg,
            }
        };
        let mut ops = vec![];
        if rng.chance(3, 4) {
            // an honest prefix so that balances and allowances exist
            for h in [2u8, 3] {
                ops.push(TOp::MintFrom { minter: 0, to: h, amount: Amt::Lit(rng.range(50, 5000) as i64), auth: AuthVar::Right, abort: None });
                ops.push(TOp::Approve { from: h, spender: 4 + (h % 2), amount: Amt::Lit(rng.range(10, 2000) as i64), exp: Exp::Future(rng.range(2, 30) as u32), auth: AuthVar::Right, abort: None });
            }
        }
        for _ in 0..n {
            let fault = f_auth && rng.chance(if p.focus == "C06" || p.focus == "C07" { 1 } else { 1 }, if p.focus == "C06" || p.focus == "C07" { 2 } else { 5 });
            let user_auth = |rng: &mut Rng| if fault { *rng.pick(&[AuthVar::Counterparty, AuthVar::Owner, AuthVar::Stranger, AuthVar::Nobody, AuthVar::RightOtherArgs]) } else if f_auth && rng.chance(1, 6) { AuthVar::Everyone } else { AuthVar::Right };
            let admin_auth = |rng: &mut Rng| if fault { *rng.pick(&[AuthVar::Former, AuthVar::OtherRole, AuthVar::Counterparty, AuthVar::Stranger, AuthVar::Nobody, AuthVar::RightOtherArgs]) } else { AuthVar::Right };
            let abort = opt_abort(rng, f_abort, 120);
            let op = match rng.weighted(&w) {
                0 => TOp::MintFrom { minter: if rng.chance(4, 5) { rng.below(2) as u8 } else { anyp(rng) }, to: anyto(rng), amount: amt(rng, false), auth: user_auth(rng), abort },
                1 => TOp::Mint { to: anyto(rng), amount: amt(rng, false), auth: admin_auth(rng), abort },
                2 => TOp::Transfer { from: holder(rng), to: anyto(rng), amount: amt(rng, false), auth: user_auth(rng), abort },
                3 => TOp::Approve {
                    from: holder(rng),
                    spender: anyp(rng),
                    amount: amt(rng, true),
                    exp: match rng.weighted(&[2, 4, 6, 3, 1, 3]) {
                        5 => Exp::Same,
                        0 => Exp::Past(rng.range(1, 3) as u32),
                        1 => Exp::Now,
                        2 => Exp::Future(rng.range(1, 5) as u32),
                        3 => Exp::Future(rng.range(10, 40) as u32),
                        _ => Exp::Future(10_000),
                    },
                    auth: user_auth(rng),
                    abort,
                },
                4 => TOp::TransferFrom { spender: anyp(rng), from: holder(rng), to: anyto(rng), amount: amt(rng, true), auth: user_auth(rng), abort },
                5 => TOp::Burn { from: holder(rng), amount: amt(rng, false), auth: user_auth(rng), abort },
                6 => TOp::BurnFrom { spender: anyp(rng), from: holder(rng), amount: amt(rng, true), auth: user_auth(rng), abort },
                7 => TOp::AddMinter { who: rng.below(NP as u64) as u8, auth: admin_auth(rng), abort },
                8 => TOp::RemoveMinter { who: rng.below(NP as u64) as u8, auth: admin_auth(rng), abort },
                9 => TOp::TransferOwnership { to: rng.below(NP as u64) as u8, via_set_admin: rng.chance(1, 2), auth: admin_auth(rng), abort },
                10 => TOp::Advance { dseq: *rng.pick(&[1u32, 1, 1, 2, 3, 5, 15, 16, 17, 40, 1_100_000]) },
                _ => TOp::Resubmit { k: rng.below(64) as u16 },
            };
            ops.push(op);
        }
        // a spender pool that makes delegated operations meaningful: bias by
        // re-using few (from, spender) pairs
        for op in ops.iter_mut() {
            match op {
                TOp::Approve { from, spender, .. } | TOp::TransferFrom { from, spender, .. } | TOp::BurnFrom { from, spender, .. } => {
                    *from = 2 + (*from % 2);
                    if *spender as usize % NP != STRANGER {
                        // mostly two dedicated spenders; sometimes the holder itself (aliasing)
                        *spender = if (*spender as usize * 7 + *from as usize * 3) % 11 == 0 { *from } else { 4 + (*spender % 2) };
                    }
                }
                _ => {}
            }
        }
        (cfg, ops)
    }

    fn execute(cfg: &TCfg, ops: &[TOp], ctx: &mut Ctx) {
        if ctx.focus == "C12" {
            for p in ["probe.spend_at_expiration_ledger", "probe.spend_one_ledger_after_expiration", "probe.reapprove_after_expiry", "probe.approve_already_expired"] {
                ctx.counters.entry(p.to_string()).or_insert(0);
            }
        }
        let mut sim = Sim::new(1_700_000_000, cfg.start_seq);
        let env = sim.env.clone();
        let mut p: Vec<Address> = (0..NP).map(|_| Address::generate(&env)).collect();
        let minter_idx = if cfg.minter_is_owner { 0 } else { 1 };
        let minter: Option<Address> = if cfg.with_minter { Some(p[minter_idx].clone()) } else { None };
        let token = env.register(
            InterchainToken,
            (
                p[0].clone(),
                minter,
                BytesN::from_array(&env, &[9u8; 32]),
                TokenMetadata { decimal: 7, name: SStr::from_str(&env, "Sim Token"), symbol: SStr::from_str(&env, "SIM") },
            ),
        );
        p.push(crate::host::zero_account(&env));
        p.push(crate::host::account_twin(&env, &p[2]));
        p.push(token.clone());
        sim.end_setup();
        let mut m = TModel { owner: 0, ..Default::default() };
        m.minters.insert(0);
        if cfg.with_minter {
            m.minters.insert(minter_idx);
        }
        let mut ex = TExec { sim, token, p, m, history: vec![] };
        ex.invariants(ctx);
        for (i, op) in ops.iter().enumerate() {
            if ctx.stopped() {
                break;
            }
            ctx.step = i;
            ex.sim.permissive_next = false;
            let eff = match op {
                TOp::Resubmit { k } => {
                    if ex.history.is_empty() {
                        ctx.end_step();
                        continue;
                    }
                    ctx.count("F1.resubmit");
                    ex.history[*k as usize % ex.history.len()].clone()
                }
                o => o.clone(),
            };
            ctx.trace_str(eff.kind());
            ex.run_op(ctx, &eff);
            if i % 3 == 1 && !ctx.stopped() {
                let addrs = ex.p.clone();
                let tk = ex.token.clone();
                crate::surface::probe_unlisted(ctx, &mut ex.sim, &tk, "interchain-token", &addrs, &["C12", "C07", "C06"], &["C12", "C07", "C06"]);
            }
            if !matches!(op, TOp::Resubmit { .. } | TOp::Advance { .. }) {
                ex.history.push(op.clone());
            }
            if !ctx.stopped() {
                ex.invariants(ctx);
            }
            ctx.trace_u64(hash_of(&ex.m));
            ctx.trace_u64(ex.sim.digest().0);
            ctx.end_step();
        }
        // quiescent tail: the owner can still administer and an honest holder can still move funds
        if !ctx.stopped() {
            ctx.step = ops.len();
            let o = ex.m.owner as u8;
            ex.run_op(ctx, &TOp::AddMinter { who: o, auth: AuthVar::Right, abort: None });
            if !ctx.stopped() {
                ex.run_op(ctx, &TOp::Mint { to: 2, amount: Amt::Lit(5), auth: AuthVar::Right, abort: None });
            }
            if !ctx.stopped() {
                ex.run_op(ctx, &TOp::Transfer { from: 2, to: 3, amount: Amt::Lit(5), auth: AuthVar::Right, abort: None });
            }
            if !ctx.stopped() {
                ex.invariants(ctx);
            }
            ctx.end_step();
        }
        for (k, v) in std::mem::take(&mut ex.sim.counters) {
            ctx.count_n(&k, v);
        }
    }

    fn simplify(op: &TOp) -> Vec<TOp> {
        let mut out = vec![];
        let mut o = op.clone();
        match &mut o {
            TOp::MintFrom { abort, .. } | TOp::Mint { abort, .. } | TOp::Transfer { abort, .. } | TOp::Approve { abort, .. } | TOp::TransferFrom { abort, .. } | TOp::Burn { abort, .. } | TOp::BurnFrom { abort, .. } | TOp::AddMinter { abort, .. } | TOp::RemoveMinter { abort, .. } | TOp::TransferOwnership { abort, .. } => {
                if abort.is_some() {
                    *abort = None;
                    out.push(o.clone());
                }
            }
            _ => {}
        }
        let mut o2 = op.clone();
        match &mut o2 {
            TOp::MintFrom { amount, .. } | TOp::Mint { amount, .. } => {
                if *amount != Amt::Lit(10) {
                    *amount = Amt::Lit(10);
                    out.push(o2.clone());
                }
            }
            TOp::Advance { dseq } if *dseq > 1 => {
                *dseq = 1;
                out.push(o2.clone());
            }
            _ => {}
        }
        out
    }
}
