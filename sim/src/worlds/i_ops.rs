//! World I executor, part 2: local operations (trusted chains, deployment,
//! canonical registration, outbound transfer, remote-deployment requests,
//! minter actions, ownership).

use super::i_exec::*;
use super::i_types::*;
use crate::abi::{AHub, AMsg};
use crate::common::{resolve_auth, AuthCtx, AuthVar};
use crate::engine::{Ctx, Verdict};
use crate::host::{addr_bytes, AuthEntry, AuthNode, Ev};
use crate::judge::{after_call, must_fail};
use crate::oracle::*;
use axelar_soroban_std::types::Token;
use soroban_sdk::xdr::ScVal;
use soroban_sdk::{Address, Bytes, BytesN, IntoVal, String as SStr, TryFromVal, Val, Vec as SVec};
use soroban_token_sdk::metadata::TokenMetadata;
use std::collections::{BTreeMap, BTreeSet};

pub const DSTS: [&[u8]; 4] = [&[0u8], &[0x4f, 0x44, 0x95, 0x24, 0x38, 0x37, 0x68, 0x10, 0x61, 0xc4, 0x74, 0x3b, 0x74, 0xb3, 0xee, 0xdf, 0x54, 0x8d, 0x56, 0xa5], &[7u8; 33], &[]];

pub fn salt_bytes(i: u8) -> [u8; 32] {
    keccak(&[b"salt".as_ref(), &[i]].concat())
}

impl<'a> IExec<'a> {
    fn ev_its(&self, topics: Vec<ScVal>, data: ScVal) -> Ev {
        Ev { contract: addr_bytes(&self.its()), topics, data }
    }
    pub fn from(&self, evs: &[Ev], who: &Address) -> Vec<Ev> {
        evs.iter().filter(|e| e.contract == addr_bytes(who)).cloned().collect()
    }

    fn owner_auth(&mut self, ctx: &mut Ctx, func: &'static str, auth: AuthVar, args: &SVec<Val>, alt: &SVec<Val>, counterparty: usize) -> (Vec<AuthEntry>, bool) {
        let o = self.m.owner;
        let c = AuthCtx { right: o, former: self.m.former_owner, other_role: 1, counterparty, owner: o, stranger: STRANGER };
        if auth.is_fault() {
            ctx.count(&format!("F7.{}.{}", func, auth.name()));
        }
        match resolve_auth(&mut self.sim, auth, &c) {
            None => (vec![], false),
            Some((w, other)) => (vec![AuthEntry { who: self.h[w].clone(), root: AuthNode::new(&self.its(), func, if other { alt.clone() } else { args.clone() }) }], w == o && !other),
        }
    }

    // ------------------------------------------------------------ trusted chains (C06 rows; feeds C04/C05/C18)

    pub fn do_trust(&mut self, ctx: &mut Ctx, chain: u8, set: bool, auth: AuthVar, abort: Option<u16>) {
        let env = self.sim.env.clone();
        let name = self.chain(chain);
        let func: &'static str = if set { "set_trusted_chain" } else { "remove_trusted_chain" };
        let args: SVec<Val> = (SStr::from_str(&env, name),).into_val(&env);
        let alt: SVec<Val> = (SStr::from_str(&env, self.chain(chain + 1)),).into_val(&env);
        let (entries, ok) = self.owner_auth(ctx, func, auth, &args, &alt, 2);
        let present = self.m.trusted.contains(name);
        let expect: Option<&'static str> = if set && present { Some("already-trusted") } else if !set && !present { Some("not-trusted") } else { None };
        let label = if !ok { "unauthorised" } else { expect.unwrap_or("accept") };
        ctx.judged(&["C06", "C04"], self.state_hash(), func, label);
        let its = self.its();
        let res = self.sim.call(&its, func, args, &entries, abort);
        ctx.note(|| format!("{} {:?} auth={:?} expect={} -> {}", func, name, auth, label, res.out.err_text()));
        if !after_call(ctx, &res, func, &["C06"]) {
            return;
        }
        ctx.count(&format!("op.{}.{}.{}", func, label, res.out.class()));
        if !ok {
            must_fail(ctx, &res, &["C06"], &format!("{}/accepted-without-owner-auth:{}", func, auth.name()), "not authorised by the owner");
            return;
        }
        if let Some(why) = expect {
            must_fail(ctx, &res, &["C06"], &format!("{}/accepted:{}", func, why), why);
            return;
        }
        if !ctx.check(res.out.is_ok(), &["C06"], &format!("{}/owner-refused", func), || res.out.err_text()) {
            return;
        }
        if set {
            if self.m.ever_trusted.contains(name) {
                ctx.count("probe.chain_trusted_again");
            }
            self.m.trusted.insert(name.to_string());
            self.m.ever_trusted.insert(name.to_string());
        } else {
            self.m.trusted.remove(name);
        }
        let exp = vec![self.ev_its(vec![sym(if set { "trusted_chain_set" } else { "trusted_chain_removed" }), sstr(name)], svec(vec![]))];
        ctx.check(crate::judge::events_match(&res.events, &exp, &[]), &["C06"], &format!("{}/wrong-event", func), || format!("{:?}", res.events));
    }

    pub fn do_transfer_ownership(&mut self, ctx: &mut Ctx, to: u8, auth: AuthVar, abort: Option<u16>) {
        let env = self.sim.env.clone();
        let ti = to as usize % NP;
        let o = self.m.owner;
        let args: SVec<Val> = (self.h[ti].clone(),).into_val(&env);
        let alt: SVec<Val> = (self.h[(ti + 1) % NP].clone(),).into_val(&env);
        let (entries, ok) = self.owner_auth(ctx, "transfer_ownership", auth, &args, &alt, ti);
        ctx.judged(&["C06"], self.state_hash(), "transfer_ownership", if ok { "accept" } else { "unauthorised" });
        let its = self.its();
        let res = self.sim.call(&its, "transfer_ownership", args, &entries, abort);
        if !after_call(ctx, &res, "transfer_ownership", &["C06"]) {
            return;
        }
        ctx.count(&format!("op.transfer_ownership.{}.{}", if ok { "accept" } else { "unauthorised" }, res.out.class()));
        if !ok {
            must_fail(ctx, &res, &["C06"], &format!("transfer_ownership/accepted-without-holder-auth:{}", auth.name()), "not the owner");
            return;
        }
        if !ctx.check(res.out.is_ok(), &["C06"], "role-transfer/holder-refused", || res.out.err_text()) {
            return;
        }
        let exp = vec![self.ev_its(vec![sym("ownership_transferred"), saddr(&self.h[o]), saddr(&self.h[ti])], svec(vec![]))];
        ctx.check(crate::judge::events_match(&res.events, &exp, &[]), &["C06"], "role-transfer/wrong-event", || format!("{:?}", res.events));
        if ti != o {
            self.m.former_owner = Some(o);
        }
        self.m.owner = ti;
    }

    // ------------------------------------------------------------ local deployment (C11, C07)

    #[allow(clippy::too_many_arguments)]
    pub fn do_deploy(&mut self, ctx: &mut Ctx, caller: u8, salt: u8, meta: &MetaSpec, supply: i64, minter: &MinterSpec, auth: AuthVar, abort: Option<u16>) {
        let env = self.sim.env.clone();
        let ci = 2 + caller as usize % 4;
        let its = self.its();
        let sb = salt_bytes(salt);
        let name = NAMES[meta.name as usize % NAMES.len()];
        let symbol = SYMS[meta.symbol as usize % SYMS.len()];
        let decimals = DECIMALS[meta.decimals as usize % DECIMALS.len()];
        let minter_h: Option<usize> = match minter {
            MinterSpec::None => None,
            MinterSpec::User(u) => Some(2 + *u as usize % 4),
            MinterSpec::Deployer => Some(ci),
            MinterSpec::Service => Some(H_ITS),
        };
        let minter_v: Option<Address> = minter_h.map(|i| self.h[i].clone());
        let md = TokenMetadata { decimal: decimals, name: SStr::from_str(&env, name), symbol: SStr::from_str(&env, symbol) };
        let args: SVec<Val> = (self.h[ci].clone(), BytesN::from_array(&env, &sb), md.clone(), supply as i128, minter_v.clone()).into_val(&env);
        let alt: SVec<Val> = (self.h[ci].clone(), BytesN::from_array(&env, &salt_bytes(salt.wrapping_add(1))), md, supply as i128, minter_v).into_val(&env);
        let c = AuthCtx { right: ci, former: None, other_role: 1, counterparty: minter_h.filter(|x| *x < NP).unwrap_or(STRANGER), owner: self.m.owner, stranger: STRANGER };
        if auth.is_fault() {
            ctx.count(&format!("F7.deploy_interchain_token.{}", auth.name()));
        }
        let (entries, auth_ok) = match resolve_auth(&mut self.sim, auth, &c) {
            None => (vec![], false),
            Some((w, other)) => (vec![AuthEntry { who: self.h[w].clone(), root: AuthNode::new(&its, "deploy_interchain_token", if other { alt } else { args.clone() }) }], w == ci && !other),
        };
        // independent id derivation
        let dsalt = its_deploy_salt(&self.cfg.chain_name, &saddr(&self.h[ci]), &sb);
        let id = its_token_id(&dsalt);
        let expected_addr = deployed_address(&[0u8; 32], &addr_bytes(&its), &id);
        let meta_ok = !name.is_empty() && !symbol.is_empty() && decimals <= 255;
        let taken = self.m.registry.contains_key(&id);
        let expect: Option<&'static str> = if !meta_ok {
            Some("unrepresentable-metadata")
        } else if supply <= 0 && minter_h == Some(H_ITS) {
            Some("service-as-designated-minter")
        } else if taken {
            ctx.count("F12.redeploy_taken_id");
            Some("token-id-already-registered")
        } else {
            None
        };
        let label = if !auth_ok { "unauthorised" } else { expect.unwrap_or(if supply < 0 { "either" } else { "accept" }) };
        ctx.judged(&["C11", "C07"], self.state_hash(), "deploy", label);
        let res = self.sim.call(&its, "deploy_interchain_token", args, &entries, abort);
        ctx.note(|| format!("deploy caller=h{} salt={} supply={} minter={:?} expect={} -> {}", ci, salt, supply, minter, label, res.out.err_text()));
        if !after_call(ctx, &res, "deploy_interchain_token", &["C11"]) {
            return;
        }
        ctx.count(&format!("op.deploy.{}.{}", label, res.out.class()));
        if !auth_ok {
            must_fail(ctx, &res, &["C07", "C11"], "deploy/accepted-without-deployers-auth", "deployer did not authorise");
            return;
        }
        if let Some(why) = expect {
            must_fail(ctx, &res, &["C11"], &format!("deploy/accepted:{}", why), why);
            return;
        }
        if supply < 0 && res.out.is_err() {
            ctx.check(res.unchanged_full(), &["C11"], "refused-call-changed-state", || "refused deployment changed the ledger".into());
            return;
        }
        if !ctx.check(res.out.is_ok(), &["C11"], "deploy/valid-deployment-refused", || res.out.err_text()) {
            return;
        }
        // returned id, registry, address
        let got_id = res.out.val().and_then(|v| BytesN::<32>::try_from_val(&env, &v).ok()).map(|b| b.to_array());
        if !ctx.check(got_id == Some(id), &["C11"], "deploy/token-id-not-the-domain-separated-function", || {
            format!("returned id {:?}, independent derivation from (chain name, deployer, salt) gives {}", got_id.map(hex::encode), hex::encode(id))
        }) {
            return;
        }
        let ta = self.sim.query(&its, "token_address", (BytesN::from_array(&env, &id),).into_val(&env));
        let tav = ta.val().and_then(|v| Address::try_from_val(&env, &v).ok());
        if !ctx.check(tav.as_ref().map(addr_bytes) == Some(expected_addr), &["C11"], "deploy/address-not-derived-from-id", || {
            format!("token address {:?}, expected contract id {}", tav, hex::encode(expected_addr))
        }) {
            return;
        }
        let taddr = tav.unwrap();
        let sup = (supply as i128).max(0);
        let mut minters: BTreeSet<usize> = BTreeSet::new();
        minters.insert(H_ITS);
        if let Some(mh) = minter_h {
            minters.insert(mh);
        }
        let mut bal = BTreeMap::new();
        if sup > 0 {
            bal.insert(ci, sup);
        }
        let t = self.toks.len();
        self.toks.push(Tok { id_bytes: addr_bytes(&taddr), kind: TokKind::Wasm, name: name.to_string(), symbol: symbol.to_string(), decimals, bal, minters, token_id: Some(id), locked: 0, released: 0, supply: sup, flaky: false, weird: false });
        self.tok_addr.push(taddr.clone());
        self.m.registry.insert(id, (t, true));
        self.m.reg_order.push(id);
        for hd in 0..NH {
            self.touched.insert((t, hd));
        }
        self.check_deployed_token(ctx, t, supply > 0 && minter_h.is_some() && minter_h != Some(H_ITS));
    }

    /// what every service-deployed token must report (C11)
    pub fn check_deployed_token(&mut self, ctx: &mut Ctx, t: usize, known_case: bool) -> bool {
        let env = self.sim.env.clone();
        let taddr = self.tok_addr[t].clone();
        let tk = self.toks[t].clone();
        let q = self.sim.query(&taddr, "token_id", SVec::new(&env));
        let qv = q.val().and_then(|v| BytesN::<32>::try_from_val(&env, &v).ok()).map(|b| b.to_array());
        if !ctx.check(qv == tk.token_id, &["C11"], "deployed-token/reports-other-id", || format!("token_id() = {:?}", qv.map(hex::encode))) {
            return false;
        }
        let n = self.sim.query(&taddr, "name", SVec::new(&env)).val().and_then(|v| SStr::try_from_val(&env, &v).ok()).map(|s| sstr_to_string(&s));
        let s = self.sim.query(&taddr, "symbol", SVec::new(&env)).val().and_then(|v| SStr::try_from_val(&env, &v).ok()).map(|s| sstr_to_string(&s));
        let d = self.sim.query(&taddr, "decimals", SVec::new(&env)).val().and_then(|v| u32::try_from_val(&env, &v).ok());
        if !ctx.check(n.as_deref() == Some(&tk.name) && s.as_deref() == Some(&tk.symbol) && d == Some(tk.decimals), &["C11"], "deployed-token/metadata-differs", || {
            format!("metadata ({:?},{:?},{:?}) requested ({:?},{:?},{})", n, s, d, tk.name, tk.symbol, tk.decimals)
        }) {
            return false;
        }
        let o = self.sim.query(&taddr, "owner", SVec::new(&env)).val().and_then(|v| Address::try_from_val(&env, &v).ok());
        if !ctx.check(o.as_ref() == Some(&self.its()), &["C11"], "deployed-token/not-owned-by-service", || format!("owner() = {:?}", o)) {
            return false;
        }
        for hd in 0..NH {
            let q = self.sim.query(&taddr, "is_minter", (self.h[hd].clone(),).into_val(&env));
            let qv = q.val().and_then(|v| bool::try_from(v).ok());
            let want = tk.minters.contains(&hd);
            if qv == Some(want) {
                continue;
            }
            if hd == H_ITS && known_case {
                ctx.count("probe.deploy_with_supply_and_minter");
                match ctx.expect(false, &["C11"], "its.deploy/service-minter-revoked(supply>0,minter)", || {
                    "token deployed with initial supply > 0 and a designated minter: is_minter(service) is false".into()
                }) {
                    Verdict::Adopt => {
                        self.toks[t].minters.remove(&H_ITS);
                        continue;
                    }
                    _ => return false,
                }
            }
            if !ctx.check(false, &["C11"], "deployed-token/minting-rights-differ", || {
                format!("is_minter(holder {}) = {:?}, expected {} (minters must be exactly the service and the designated minter)", hd, qv, want)
            }) {
                return false;
            }
        }
        true
    }

    // ------------------------------------------------------------ canonical registration (C11)

    /// token codes 100..: addresses that are no token (the all-zero account, the account twin of a
    /// holder, a holder's own contract address)
    pub fn nontoken_addr(&self, tok: u8) -> Option<Address> {
        if tok < 100 {
            return None;
        }
        Some(match (tok - 100) % 3 {
            0 => crate::host::zero_account(&self.sim.env),
            1 => crate::host::account_twin(&self.sim.env, &self.h[2]),
            _ => self.h[3].clone(),
        })
    }

    pub fn do_register(&mut self, ctx: &mut Ctx, tok: u8, abort: Option<u16>) {
        let env = self.sim.env.clone();
        let t = tok as usize % self.toks.len();
        let special = self.nontoken_addr(tok);
        let taddr = special.clone().unwrap_or_else(|| self.tok_addr[t].clone());
        let its = self.its();
        let dsalt = its_canonical_salt(&self.cfg.chain_name, &saddr(&taddr));
        let id = its_token_id(&dsalt);
        let taken = self.m.registry.contains_key(&id) || self.m.nontoken.contains_key(&id);
        if special.is_some() {
            ctx.count("probe.register_an_address_that_is_no_token_as_canonical");
        }
        if taken {
            ctx.count("F12.reregister_canonical");
        }
        if special.is_none() && self.toks[t].kind == TokKind::Wasm {
            ctx.count("probe.register_service_deployed_token_as_canonical");
        }
        ctx.judged(&["C11"], self.state_hash(), "register_canonical", if taken { "already-registered" } else { "accept" });
        let args: SVec<Val> = (taddr.clone(),).into_val(&env);
        let res = self.sim.call(&its, "register_canonical_token", args, &[], abort);
        ctx.note(|| format!("register_canonical tok={} taken={} -> {}", t, taken, res.out.err_text()));
        if !after_call(ctx, &res, "register_canonical_token", &["C11"]) {
            return;
        }
        ctx.count(&format!("op.register.{}.{}", if taken { "taken" } else { "accept" }, res.out.class()));
        if taken {
            must_fail(ctx, &res, &["C11"], "register/accepted:token-id-already-registered", "id already registered");
            return;
        }
        if !ctx.check(res.out.is_ok(), &["C11"], "register/valid-registration-refused", || res.out.err_text()) {
            return;
        }
        let got_id = res.out.val().and_then(|v| BytesN::<32>::try_from_val(&env, &v).ok()).map(|b| b.to_array());
        if !ctx.check(got_id == Some(id), &["C11"], "register/token-id-not-the-domain-separated-function", || {
            format!("returned id {:?}, independent derivation from (chain name, token address) gives {}", got_id.map(hex::encode), hex::encode(id))
        }) {
            return;
        }
        if special.is_some() {
            self.m.nontoken.insert(id, tok);
        } else {
            self.m.registry.insert(id, (t, false));
            self.m.reg_order.push(id);
        }
        let exp = vec![self.ev_its(vec![sym("interchain_token_id_claimed"), sbytes(&id), saddr_zero_account(), sbytes(&dsalt)], svec(vec![]))];
        ctx.check(crate::judge::events_match(&res.events, &exp, &[]), &["C11"], "register/wrong-event", || format!("{:?}", res.events));
    }

    // ------------------------------------------------------------ gas payment authorisation sub-tree

    fn pay_gas_node(&self, payload: &[u8], spender: usize, gas_t: usize, gas: i128, gas_delta: i128) -> AuthNode {
        let env = &self.sim.env;
        let tok = Token { address: self.tok_addr[gas_t].clone(), amount: gas };
        let pay: SVec<Val> = (
            self.its(),
            SStr::from_str(env, HUB_CHAIN),
            SStr::from_str(env, &self.cfg.hub_address),
            Bytes::from_slice(env, payload),
            self.h[spender].clone(),
            tok,
            Bytes::new(env),
        )
            .into_val(env);
        let xfer: SVec<Val> = (self.h[spender].clone(), self.gas(), gas.wrapping_add(gas_delta)).into_val(env);
        AuthNode::new(&self.gas(), "pay_gas", pay).with(AuthNode::new(&self.tok_addr[gas_t], "transfer", xfer))
    }

    /// events of an outbound hub message: gas_paid from the gas service and
    /// contract_called from the gateway, both over the independently encoded payload
    fn check_outbound_events(&mut self, ctx: &mut Ctx, evs: &[Ev], payload: &[u8], spender: usize, gas_t: usize, gas: i128, props: &[&'static str]) -> bool {
        let g = self.from(evs, &self.gas());
        let tok_sc = smap(vec![("address", saddr(&self.tok_addr[gas_t])), ("amount", si128(gas))]);
        let exp_g = Ev {
            contract: addr_bytes(&self.gas()),
            topics: vec![sym("gas_paid"), saddr(&self.its()), sstr(HUB_CHAIN), sstr(&self.cfg.hub_address), sbytes(&keccak(payload)), saddr(&self.h[spender]), tok_sc],
            data: svec(vec![sbytes(&[])]),
        };
        if !ctx.check(crate::judge::events_match(&g, &[exp_g.clone()], &[]), props, "outbound/wrong-gas-payment-announcement", || format!("expected one gas_paid over the announced payload; got {:?}", g)) {
            return false;
        }
        let w = self.from(evs, &self.gateway.clone());
        let exp_w = Ev {
            contract: addr_bytes(&self.gateway),
            topics: vec![sym("contract_called"), saddr(&self.its()), sstr(HUB_CHAIN), sstr(&self.cfg.hub_address), sbytes(&keccak(payload))],
            data: sbytes(payload),
        };
        ctx.check(crate::judge::events_match(&w, &[exp_w.clone()], &[]), props, "outbound/announced-payload-differs", || {
            let got = w.first().map(|e| format!("{:?}", e.data)).unwrap_or_default();
            format!("expected contract_called to (axelar, hub address) with payload {} ; got {} event(s) {}", hex::encode(payload), w.len(), got)
        })
    }

    // ------------------------------------------------------------ outbound transfer (C05, C07, C13)

    #[allow(clippy::too_many_arguments)]
    pub fn do_send(&mut self, ctx: &mut Ctx, caller: u8, tok: &TokRef, chain: u8, dst: u8, amount: &IAmt, data: Option<u8>, gas_tok: u8, gas: i64, auth: AuthVar, abort: Option<u16>) {
        let env = self.sim.env.clone();
        // caller 200: the service's own address named as sender by an outside caller
        let self_caller = caller == 200;
        let ci = if self_caller { H_ITS } else { 2 + caller as usize % 4 };
        let its = self.its();
        let resolved = self.resolve_tok(tok);
        let (id, t_opt, native) = match resolved {
            Ok((id, t, n)) => (id, Some(t), n),
            Err(id) => (id, None, false),
        };
        let bal = t_opt.map(|t| self.bal(t, ci)).unwrap_or(0);
        let a: i128 = match amount {
            IAmt::Zero => 0,
            IAmt::Neg => -1,
            IAmt::Lit(v) => *v as i128,
            IAmt::Balance => bal,
            IAmt::BalancePlus1 => bal.saturating_add(1),
            IAmt::Wide(k) => [(1i128 << 64) + 5, -(1i128 << 64) + 7, i128::MIN + 9, i128::MAX, (1i128 << 32) + 3, (1i128 << 96) + 1][*k as usize % 6],
        };
        let dchain = self.chain(chain);
        let dbytes = DSTS[dst as usize % DSTS.len()];
        let data_b: Option<Vec<u8>> = data.map(|i| self.cfg.payloads[i as usize % self.cfg.payloads.len()].clone());
        let gas_t = gas_tok as usize % self.toks.len();
        let g = gas as i128;
        // independent encoding of what must be announced
        let payload = AHub {
            send: true,
            chain: dchain.to_string(),
            msg: AMsg::Transfer { id, src: xdr_of(&saddr(&self.h[ci])), dst: dbytes.to_vec(), amount: a.max(0) as u128, data: data_b.clone().unwrap_or_default() },
        }
        .encode();
        let tokv = Token { address: self.tok_addr[gas_t].clone(), amount: g };
        let args: SVec<Val> = (
            self.h[ci].clone(),
            BytesN::from_array(&env, &id),
            SStr::from_str(&env, dchain),
            Bytes::from_slice(&env, dbytes),
            a,
            data_b.as_ref().map(|d| Bytes::from_slice(&env, d)),
            tokv,
        )
            .into_val(&env);
        // authorisation forest
        let c = AuthCtx { right: ci, former: None, other_role: 1, counterparty: 2 + (caller as usize + 1) % 4, owner: self.m.owner, stranger: STRANGER };
        if auth.is_fault() {
            ctx.count(&format!("F7.interchain_transfer.{}", auth.name()));
        }
        if self_caller {
            ctx.count("probe.contract_address_named_as_caller_from_outside");
        }
        let (entries, auth_ok) = match if self_caller { None } else { resolve_auth(&mut self.sim, auth, &c) } {
            None => (vec![], false),
            Some((w, other)) => {
                let mut root = AuthNode::new(&its, "interchain_transfer", args.clone());
                let mut full = true;
                if auth == AuthVar::RootOnly {
                    full = false;
                } else {
                    let delta = if other { 1 } else { 0 };
                    if other {
                        full = false;
                    }
                    if let Some(t) = t_opt {
                        let take: AuthNode = if native {
                            AuthNode::new(&self.tok_addr[t], "burn", (self.h[ci].clone(), a.wrapping_add(delta)).into_val(&env))
                        } else {
                            AuthNode::new(&self.tok_addr[t], "transfer", (self.h[ci].clone(), its.clone(), a.wrapping_add(delta)).into_val(&env))
                        };
                        root = root.with(take);
                    }
                    root = root.with(self.pay_gas_node(&payload, ci, gas_t, g, 0));
                }
                (vec![AuthEntry { who: self.h[w].clone(), root }], w == ci && full)
            }
        };
        let gas_bal_after_take = if Some(gas_t) == t_opt { bal.wrapping_sub(a) } else { self.bal(gas_t, ci) };
        let expect: Option<&'static str> = if a <= 0 {
            if a == 0 { ctx.count("probe.outbound_amount_zero"); }
            Some("non-positive-amount")
        } else if t_opt.is_none() {
            Some("unknown-token")
        } else if bal < a {
            Some("insufficient-balance")
        } else if !self.m.trusted.contains(dchain) {
            if self.m.ever_trusted.contains(dchain) { ctx.count("probe.outbound_to_chain_untrusted_again"); }
            Some("untrusted-destination")
        } else if g <= 0 {
            Some("non-positive-gas")
        } else if gas_bal_after_take < g {
            Some("gas-not-affordable")
        } else if self.bal(gas_t, H_GAS).checked_add(g).is_none() || (!native && t_opt.map(|t| self.bal(t, H_ITS).checked_add(a).is_none()).unwrap_or(false)) {
            // the gas service (or the custodian) already holds so much that the credit cannot be represented
            ctx.count("probe.outbound_credit_would_overflow");
            Some("credit-would-overflow")
        } else {
            None
        };
        let label = if !auth_ok { "unauthorised" } else { expect.unwrap_or("accept") };
        ctx.judged(&["C05", "C07", "C13"], self.state_hash(), "send", label);
        let res = self.sim.call(&its, "interchain_transfer", args, &entries, abort);
        ctx.note(|| format!("send caller=h{} tok={:?} native={} amount={} to {:?} gas={}@{} auth={:?} expect={} -> {}", ci, t_opt, native, a, dchain, g, gas_t, auth, label, res.out.err_text()));
        if !after_call(ctx, &res, "interchain_transfer", &["C05"]) {
            return;
        }
        ctx.count(&format!("op.send.{}.{}", label, res.out.class()));
        if !auth_ok {
            must_fail(ctx, &res, &["C07", "C05"], "send/accepted-without-senders-full-auth", "sender did not authorise the transfer, the take and the gas payment");
            return;
        }
        if let Some(why) = expect {
            must_fail(ctx, &res, &["C05"], &format!("send/accepted:{}", why), why);
            return;
        }
        if !ctx.check(res.out.is_ok(), &["C05"], "send/valid-transfer-refused", || res.out.err_text()) {
            return;
        }
        let t = t_opt.unwrap();
        if native {
            ctx.count("probe.outbound_burn_path");
            self.add_bal(t, ci, -a);
            self.toks[t].supply = self.toks[t].supply.wrapping_sub(a);
        } else {
            ctx.count("probe.outbound_lock_path");
            self.add_bal(t, ci, -a);
            self.add_bal(t, H_ITS, a);
            self.toks[t].locked = self.toks[t].locked.wrapping_add(a);
        }
        if gas_t == t {
            ctx.count("probe.gas_paid_in_transferred_token");
        }
        self.add_bal(gas_t, ci, -g);
        self.add_bal(gas_t, H_GAS, g);
        let sent = self.from(&res.events, &its);
        let exp = vec![self.ev_its(
            vec![sym("interchain_transfer_sent"), sbytes(&id), saddr(&self.h[ci]), sstr(dchain), sbytes(dbytes), si128(a)],
            svec(vec![match &data_b { Some(d) => sbytes(d), None => ScVal::Void }]),
        )];
        if !ctx.check(crate::judge::events_match(&sent, &exp, &[]), &["C05"], "send/wrong-sent-event", || format!("{:?}", sent)) {
            return;
        }
        self.check_outbound_events(ctx, &res.events, &payload, ci, gas_t, g, &["C05", "C13"]);
    }

    // ------------------------------------------------------------ remote deployment requests (C18)

    #[allow(clippy::too_many_arguments)]
    pub fn do_deploy_remote(&mut self, ctx: &mut Ctx, canonical: Option<u8>, caller: u8, salt: u8, chain: u8, gas_tok: u8, gas: i64, auth: AuthVar, abort: Option<u16>) {
        let env = self.sim.env.clone();
        // 200 / 201: the gas service / the token service itself named as caller or payer by an
        // outside submitter — nobody can authorise for a contract address
        let contract_payer = caller >= 200;
        let ci = match caller {
            200 => H_GAS,
            201 => H_ITS,
            _ => 2 + caller as usize % 4,
        };
        if contract_payer {
            ctx.count("probe.contract_address_named_as_payer_from_outside");
        }
        let its = self.its();
        let dchain = self.chain(chain);
        let gas_t = gas_tok as usize % self.toks.len();
        let g = gas as i128;
        if let Some(tk) = canonical {
            let t = tk as usize % self.toks.len();
            let id = its_token_id(&its_canonical_salt(&self.cfg.chain_name, &saddr(&self.tok_addr[t])));
            if self.toks[t].flaky && !contract_payer && self.m.registry.contains_key(&id) && self.m.trusted.contains(dchain) && g > 0 && self.bal(gas_t, ci) >= g && self.bal(gas_t, H_GAS).checked_add(g).is_some() {
                return self.do_deploy_remote_flaky(ctx, t, ci, chain, gas_t, g, abort);
            }
        }
        let (id, func, args): ([u8; 32], &'static str, SVec<Val>) = match canonical {
            None => {
                let sb = salt_bytes(salt);
                let id = its_token_id(&its_deploy_salt(&self.cfg.chain_name, &saddr(&self.h[ci]), &sb));
                (id, "deploy_remote_interchain_token", (self.h[ci].clone(), BytesN::from_array(&env, &sb), SStr::from_str(&env, dchain), Token { address: self.tok_addr[gas_t].clone(), amount: g }).into_val(&env))
            }
            Some(tk) => {
                let t = tk as usize % self.toks.len();
                let id = its_token_id(&its_canonical_salt(&self.cfg.chain_name, &saddr(&self.tok_addr[t])));
                (id, "deploy_remote_canonical_token", (self.tok_addr[t].clone(), SStr::from_str(&env, dchain), self.h[ci].clone(), Token { address: self.tok_addr[gas_t].clone(), amount: g }).into_val(&env))
            }
        };
        let reg = self.m.registry.get(&id).copied();
        // a foreign caller re-using somebody else's salt derives a different id
        if canonical.is_none() && reg.is_none() {
            let sb = salt_bytes(salt);
            for other in 2..6usize {
                if other != ci && self.m.registry.contains_key(&its_token_id(&its_deploy_salt(&self.cfg.chain_name, &saddr(&self.h[other]), &sb))) {
                    ctx.count("probe.foreign_caller_reuses_salt");
                }
            }
        }
        let meta: Option<(String, String, u32)> = reg.map(|(t, _)| (self.toks[t].name.clone(), self.toks[t].symbol.clone(), self.toks[t].decimals));
        // the payer's authorisation is always built for the request as it would be
        // announced if it went through: for a canonical token that is not registered the
        // would-be payload is still known (the token's own metadata), so a missing
        // registration check cannot hide behind a mismatching authorisation
        let mut would_be_id = id;
        let would_be: Option<(String, String, u32)> = meta.clone().or_else(|| match canonical {
            Some(tk) => {
                let t = tk as usize % self.toks.len();
                Some((self.toks[t].name.clone(), self.toks[t].symbol.clone(), self.toks[t].decimals))
            }
            None => {
                // a foreign caller re-using the original deployer's salt: if the id were
                // (wrongly) derived without the caller, the deployer's token would be announced
                let sb = salt_bytes(salt);
                (2..6usize).filter(|o| *o != ci).find_map(|o| {
                    let oid = its_token_id(&its_deploy_salt(&self.cfg.chain_name, &saddr(&self.h[o]), &sb));
                    self.m.registry.get(&oid).map(|(t, _)| {
                        would_be_id = oid;
                        (self.toks[*t].name.clone(), self.toks[*t].symbol.clone(), self.toks[*t].decimals)
                    })
                })
            }
        });
        let payload: Vec<u8> = match &would_be {
            Some((n, s, d)) => AHub { send: true, chain: dchain.to_string(), msg: AMsg::Deploy { id: would_be_id, name: n.clone(), symbol: s.clone(), decimals: *d as u8, minter: vec![] } }.encode(),
            None => vec![],
        };
        let c = AuthCtx { right: ci, former: None, other_role: 1, counterparty: 2 + (caller as usize % 4 + 1) % 4, owner: self.m.owner, stranger: STRANGER };
        if auth.is_fault() {
            ctx.count(&format!("F7.{}.{}", func, auth.name()));
        }
        let (entries, auth_ok) = match if contract_payer { None } else { resolve_auth(&mut self.sim, auth, &c) } {
            None => (vec![], false),
            Some((w, other)) => {
                let full = !(other || auth == AuthVar::RootOnly);
                let pay = self.pay_gas_node(&payload, ci, gas_t, g, if other { 1 } else { 0 });
                let root = if canonical.is_none() {
                    let r = AuthNode::new(&its, func, args.clone());
                    if auth == AuthVar::RootOnly { r } else { r.with(pay) }
                } else if auth == AuthVar::RootOnly {
                    // the payer signs something else entirely
                    AuthNode::new(&its, func, args.clone())
                } else {
                    pay
                };
                (vec![AuthEntry { who: self.h[w].clone(), root }], w == ci && full)
            }
        };
        let expect: Option<&'static str> = match &meta {
            None => Some("token-id-not-registered"),
            Some((n, s, d)) => {
                if n.is_empty() || s.is_empty() || *d > 255 || reg.map(|(t, _)| self.toks[t].weird).unwrap_or(false) {
                    ctx.count("probe.remote_deploy_unrepresentable_metadata");
                    Some("unrepresentable-metadata")
                } else if !self.m.trusted.contains(dchain) {
                    Some("untrusted-destination")
                } else if g <= 0 {
                    Some("non-positive-gas")
                } else if self.bal(gas_t, ci) < g {
                    Some("gas-not-affordable")
                } else if ci != H_GAS && self.bal(gas_t, H_GAS).checked_add(g).is_none() {
                    Some("credit-would-overflow")
                } else {
                    None
                }
            }
        };
        // without the payer's authorisation the call can still fail for any other reason first
        let label = if expect.is_some() { expect.unwrap() } else if !auth_ok { "unauthorised" } else { "accept" };
        ctx.judged(&["C18", "C07"], self.state_hash(), func, label);
        let res = self.sim.call(&its, func, args, &entries, abort);
        ctx.note(|| format!("{} caller=h{} id={} dest={:?} gas={}@{} auth={:?} expect={} -> {}", func, ci, hex::encode(&id[..4]), dchain, g, gas_t, auth, label, res.out.err_text()));
        if !after_call(ctx, &res, func, &["C18"]) {
            return;
        }
        ctx.count(&format!("op.{}.{}.{}", func, label, res.out.class()));
        if let Some(why) = expect {
            // refused for a reason of its own — and if, on top of that, the caller / payer authorised nothing,
            // going through is also acting without the named address's authorisation
            let tags: &[&'static str] = if auth_ok { &["C18"] } else { &["C18", "C07"] };
            must_fail(ctx, &res, tags, &format!("deploy_remote/accepted:{}", why), why);
            return;
        }
        if !auth_ok {
            must_fail(ctx, &res, &["C07", "C18"], "deploy_remote/accepted-without-payers-auth", "caller / payer did not authorise the request and its gas payment");
            return;
        }
        if !ctx.check(res.out.is_ok(), &["C18"], "deploy_remote/valid-request-refused", || res.out.err_text()) {
            return;
        }
        let got_id = res.out.val().and_then(|v| BytesN::<32>::try_from_val(&env, &v).ok()).map(|b| b.to_array());
        if !ctx.check(got_id == Some(id), &["C18"], "deploy_remote/returned-other-id", || format!("{:?}", got_id.map(hex::encode))) {
            return;
        }
        self.add_bal(gas_t, ci, -g);
        self.add_bal(gas_t, H_GAS, g);
        let (t, _) = reg.unwrap();
        let (n, s, d) = meta.unwrap();
        let started = self.from(&res.events, &its);
        let exp = vec![self.ev_its(
            vec![sym("token_deployment_started"), sbytes(&id), saddr(&self.tok_addr[t]), sstr(dchain), sstr(&n), sstr(&s), su32(d), ScVal::Void],
            svec(vec![]),
        )];
        if !ctx.check(crate::judge::events_match(&started, &exp, &[]), &["C18"], "deploy_remote/wrong-started-event", || format!("{:?}", started)) {
            return;
        }
        if !self.check_outbound_events(ctx, &res.events, &payload, ci, gas_t, g, &["C18", "C13"]) {
            return;
        }
        // no funds other than the gas payment moved
        for tt in 0..self.toks.len() {
            for hd in 0..NH {
                self.touched.insert((tt, hd));
            }
        }
    }

    // ------------------------------------------------------------ a canonical token answers inconsistently (F9)

    pub fn do_probe_set_flaky(&mut self, ctx: &mut Ctx, tok: u8, after: u8) {
        let env = self.sim.env.clone();
        let t = tok as usize % self.toks.len();
        if self.toks[t].kind != TokKind::Probe {
            return;
        }
        let taddr = self.tok_addr[t].clone();
        let r = self.sim.query(&taddr, "set_flaky", (after as u32,).into_val(&env));
        if r.is_err() {
            ctx.harness("probe token refused set_flaky".into());
            return;
        }
        ctx.count("F9.canonical_token_answers_metadata_reads_inconsistently");
        self.toks[t].flaky = true;
        ctx.trace_str("set_flaky");
    }

    pub fn do_probe_set_weird(&mut self, ctx: &mut Ctx, tok: u8, mode: u8) {
        let env = self.sim.env.clone();
        let t = tok as usize % self.toks.len();
        if self.toks[t].kind != TokKind::Probe {
            return;
        }
        let taddr = self.tok_addr[t].clone();
        let r = self.sim.query(&taddr, "set_weird", (1 + mode as u32 % 5,).into_val(&env));
        if r.is_err() {
            ctx.harness("probe token refused set_weird".into());
            return;
        }
        ctx.count("F9.canonical_token_answers_a_getter_with_another_type");
        self.toks[t].weird = true;
        ctx.trace_str("set_weird");
    }

    /// Remote deployment of a canonical token whose metadata getters answer inconsistently.  What the
    /// "true" metadata is cannot be said, so acceptance and refusal are both fine — but whatever is
    /// announced must itself be representable: a non-empty name and symbol (decimals are a byte on the wire).
    /// Every address approves during this call (the payer cannot know the payload it would have to sign).
    #[allow(clippy::too_many_arguments)]
    fn do_deploy_remote_flaky(&mut self, ctx: &mut Ctx, t: usize, ci: usize, chain: u8, gas_t: usize, g: i128, abort: Option<u16>) {
        let env = self.sim.env.clone();
        let its = self.its();
        let dchain = self.chain(chain);
        let args: SVec<Val> = (self.tok_addr[t].clone(), SStr::from_str(&env, dchain), self.h[ci].clone(), Token { address: self.tok_addr[gas_t].clone(), amount: g }).into_val(&env);
        ctx.judged(&["C18"], self.state_hash(), "deploy_remote_canonical_token", "flaky-token");
        self.sim.permissive_next = true;
        let res = self.sim.call(&its, "deploy_remote_canonical_token", args, &[], abort);
        ctx.note(|| format!("deploy_remote_canonical_token of a token that answers inconsistently -> {}", res.out.err_text()));
        if !after_call(ctx, &res, "deploy_remote_canonical_token", &["C18"]) {
            return;
        }
        ctx.count(&format!("op.deploy_remote_canonical_token.flaky-token.{}", res.out.class()));
        if res.out.is_err() {
            ctx.check(res.unchanged_full() && res.events.is_empty(), &["C18"], "deploy_remote/refused-request-changed-state", || "a refused remote deployment changed the ledger".into());
            return;
        }
        // accepted: the payer paid the stated gas, and the announced message is representable
        self.add_bal(gas_t, ci, -g);
        self.add_bal(gas_t, H_GAS, g);
        let w = self.from(&res.events, &self.gateway.clone());
        let announced: Option<Vec<u8>> = w.iter().find(|e| e.name() == "contract_called").and_then(|e| match &e.data {
            ScVal::Bytes(b) => Some(b.0.to_vec()),
            _ => None,
        });
        let Some(bytes) = announced else {
            ctx.check(false, &["C18"], "deploy_remote/accepted-without-announcement", || "accepted remote deployment announced nothing".into());
            return;
        };
        let ok = match super::i_in::repo_decode(&env, &bytes) {
            Ok(Some(AHub { msg: AMsg::Deploy { name, symbol, .. }, .. })) => !name.is_empty() && !symbol.is_empty(),
            _ => false,
        };
        ctx.check(ok, &["C18"], "deploy_remote/accepted:unrepresentable-metadata", || format!("announced a deploy message with an empty name or symbol (or no deploy message at all): {}", hex::encode(&bytes)));
        for tt in 0..self.toks.len() {
            for hd in 0..NH {
                self.touched.insert((tt, hd));
            }
        }
    }

    // ------------------------------------------------------------ a canonical token changes its own metadata

    pub fn do_probe_set_meta(&mut self, ctx: &mut Ctx, tok: u8, meta: &MetaSpec) {
        let env = self.sim.env.clone();
        let t = tok as usize % self.toks.len();
        if self.toks[t].kind != TokKind::Probe {
            return;
        }
        let name = NAMES[meta.name as usize % NAMES.len()];
        let symbol = SYMS[meta.symbol as usize % SYMS.len()];
        let decimals = DECIMALS[meta.decimals as usize % DECIMALS.len()];
        let taddr = self.tok_addr[t].clone();
        let r = self.sim.query(&taddr, "set_meta", (SStr::from_str(&env, name), SStr::from_str(&env, symbol), decimals).into_val(&env));
        if r.is_err() {
            ctx.harness("probe token refused set_meta".into());
            return;
        }
        ctx.count("probe.canonical_token_changed_its_metadata");
        self.toks[t].flaky = false;
        self.toks[t].weird = false;
        self.toks[t].name = name.to_string();
        self.toks[t].symbol = symbol.to_string();
        self.toks[t].decimals = decimals;
        ctx.trace_str("set_meta");
    }

    // ------------------------------------------------------------ a designated minter's own actions (C05 supply clause)

    pub fn do_minter_mint(&mut self, ctx: &mut Ctx, tok: &TokRef, who: u8, to: u8, amount: i64) {
        let env = self.sim.env.clone();
        let Ok((_, t, _)) = self.resolve_tok(tok) else { return };
        if self.toks[t].kind != TokKind::Wasm {
            return;
        }
        let wi = 2 + who as usize % 4;
        let ti = 2 + to as usize % 4;
        let a = amount as i128;
        let taddr = self.tok_addr[t].clone();
        let args: SVec<Val> = (self.h[wi].clone(), self.h[ti].clone(), a).into_val(&env);
        let entries = vec![AuthEntry { who: self.h[wi].clone(), root: AuthNode::new(&taddr, "mint_from", args.clone()) }];
        let ok = self.toks[t].minters.contains(&wi) && a >= 0;
        let overflow = self.bal(t, ti).checked_add(a).is_none();
        let res = self.sim.call(&taddr, "mint_from", args, &entries, None);
        if overflow {
            // a credit past i128::MAX: the statement is silent, the token traps
            if res.out.is_ok() {
                self.add_bal(t, ti, a);
                self.toks[t].supply = self.toks[t].supply.wrapping_add(a);
            }
            return;
        }
        ctx.trace_str(res.out.class());
        ctx.count(&format!("op.minter_mint.{}.{}", if ok { "accept" } else { "refuse" }, res.out.class()));
        if !ctx.check(res.out.is_ok() == ok, &["C05", "C11"], "minter-mint/outcome-differs", || {
            format!("mint_from by holder {} (minter per model: {}) amount {} -> {}", wi, self.toks[t].minters.contains(&wi), a, res.out.err_text())
        }) {
            return;
        }
        if ok {
            self.add_bal(t, ti, a);
            self.toks[t].supply = self.toks[t].supply.wrapping_add(a);
        }
    }
}
