//! World G executor, part 2: rotation, retention sweep, construction, clock,
//! roles, outbound calls, per-step invariants, quiescent tail.

use super::g_exec::*;
use super::g_types::*;
use crate::common::{AuthVar, ClockMove, PayloadSpec, StrSpec};
use crate::engine::Ctx;
use crate::host::{addr_bytes, AuthEntry, AuthNode, Ev, MAX_SEQ_ADVANCE};
use crate::oracle::*;
use axelar_gateway::AxelarGateway;
use axelar_soroban_std::types::Token;
use soroban_sdk::testutils::Address as _;
use soroban_sdk::xdr::ScVal;
use soroban_sdk::{Address, Bytes, BytesN, IntoVal, String as SStr, Val, Vec as SVec};
use std::collections::BTreeMap;
use std::panic::{catch_unwind, AssertUnwindSafe};

impl<'a> GExec<'a> {
    // ------------------------------------------------------------ rotate

    pub fn do_rotate(
        &mut self,
        ctx: &mut Ctx,
        gw: u8,
        cand: &Cand,
        proof: &ProofSpec,
        bypass: bool,
        auth: AuthVar,
        abort: Option<u16>,
    ) -> bool {
        let g = gw as usize % self.ngw();
        let env = self.env().clone();
        let cset = self.cand(cand);
        let data_hash = cset.rotation_data_hash();
        let built = self.build_proof(g, proof, &data_hash, "RotateSigners", &cset.to_scval());
        let verdict = self.judge_proof(g, &built, &data_hash);
        let gaddr = self.gws[g].addr.clone();
        let args: SVec<Val> =
            (mset_to_val(&env, &cset), proof_to_val(&env, &built), bypass).into_val(&env);
        // operator authorisation
        let m = self.gws[g].m.clone();
        let who: Option<usize> = match auth {
            AuthVar::Right | AuthVar::Everyone | AuthVar::RightOtherArgs | AuthVar::RootOnly => Some(m.operator),
            AuthVar::Former => Some(m.former_operator.unwrap_or(P_STRANGER)),
            AuthVar::OtherRole | AuthVar::Owner => Some(m.owner),
            AuthVar::Counterparty => Some(6),
            AuthVar::Stranger => Some(P_STRANGER),
            AuthVar::Nobody => None,
        };
        let mut entries = vec![];
        let mut op_auth_ok = false;
        if let Some(w) = who {
            let mut a = args.clone();
            let other_args = matches!(auth, AuthVar::RightOtherArgs | AuthVar::RootOnly);
            if other_args {
                // the operator authorised a bypass for a different candidate
                let mut other = cset.clone();
                other.nonce[0] ^= 0x55;
                a.set(0, mset_to_val(&env, &other).into_val(&env));
            }
            entries.push(AuthEntry {
                who: self.principals[w].clone(),
                root: AuthNode::new(&gaddr, "rotate_signers", a),
            });
            op_auth_ok = w == m.operator && !other_args;
        }
        if bypass && auth.is_fault() {
            ctx.count(&format!("F7.rotate_bypass.{}", auth.name()));
        }
        let now = self.sim.now();
        let wf = cset.well_formed();
        let dup = m.by_hash.contains_key(&cset.hash());
        let delay_ok = bypass || now - m.last_rotation >= m.min_delay;
        // reason for refusal, in no particular order of precedence (only
        // success/failure is compared)
        let mut reason: Option<&'static str> = None;
        if bypass && !op_auth_ok {
            reason = Some("bypass-without-operator-auth");
        } else if let Err(r) = &verdict {
            reason = Some(r);
        } else if !bypass && verdict == Ok(false) {
            reason = Some("not-latest-signers");
        } else if wf == Err(false) {
            reason = Some("malformed-candidate");
        } else if !delay_ok {
            reason = Some("rotation-delay-not-elapsed");
        } else if dup {
            reason = Some("duplicate-set");
        }
        let either = reason.is_none() && wf == Err(true);
        // probes
        if reason == Some("rotation-delay-not-elapsed") && now - m.last_rotation + 1 == m.min_delay {
            ctx.count("probe.rotation_one_second_early");
        }
        if reason.is_none() && !bypass && m.min_delay > 0 && now - m.last_rotation == m.min_delay {
            ctx.count("probe.rotation_exactly_at_boundary");
        }
        if reason.is_none() && bypass && now - m.last_rotation < m.min_delay {
            ctx.count("probe.bypass_inside_delay_window");
        }
        if reason == Some("duplicate-set") {
            ctx.count("probe.rotation_to_previously_installed_set");
        }
        if reason == Some("not-latest-signers") {
            ctx.count("probe.rotation_by_retained_non_latest_set");
        }
        if bypass && reason.is_none() && verdict == Ok(false) {
            ctx.count("probe.bypass_rotation_by_older_retained_set");
        }
        let sh = self.state_hash();
        ctx.judged(
            &["C03", "C08", "C09", "C06"],
            sh,
            if bypass { "rotate-bypass" } else { "rotate" },
            reason.unwrap_or(if either { "either" } else { "accept" }),
        );
        let res = self.sim.call(&gaddr, "rotate_signers", args, &entries, abort);
        ctx.trace_str(res.out.class());
        ctx.note(|| {
            format!(
                "rotate gw{} bypass={} auth={:?} now={} last={} delay={} reason={:?} -> {}",
                g, bypass, auth, now, m.last_rotation, m.min_delay, reason, res.out.err_text()
            )
        });
        let props: &[&'static str] = &["C03", "C08", "C09"];
        if !self.panic_guard(ctx, &res, "rotate_signers") || !self.note_abort(ctx, &res, props) {
            return false;
        }
        ctx.count(&format!(
            "op.rotate.{}.{}",
            reason.unwrap_or(if either { "either" } else { "accept" }),
            res.out.class()
        ));
        if let Some(why) = reason {
            let tags: &[&'static str] = match why {
                "bypass-without-operator-auth" => &["C09", "C06", "C03"],
                "rotation-delay-not-elapsed" => &["C09", "C06"],
                "not-latest-signers" | "set-outdated" => &["C08", "C03"],
                "malformed-candidate" | "duplicate-set" => &["C03"],
                _ => &["C03", "C01"],
            };
            let cls = format!("rotate/accepted:{}", why);
            self.must_fail(ctx, &res, tags, &cls, why);
            return false;
        }
        if either {
            ctx.count("probe.candidate_with_zero_first_key");
            if res.out.is_err() {
                ctx.check(res.unchanged_full() && res.events.is_empty(), &["C03"], "refused-call-changed-state", || {
                    "refused rotation changed the ledger".to_string()
                });
                return false;
            }
        } else {
            let tags: &[&'static str] = if bypass { &["C03", "C09", "C08"] } else { &["C03", "C09", "C08"] };
            if !ctx.check(res.out.is_ok(), tags, "rotate/valid-rotation-refused", || {
                format!(
                    "well-formed fresh candidate, valid proof (latest={:?}), bypass={}, now-last={} delay={}: refused with {}",
                    verdict, bypass, now - m.last_rotation, m.min_delay, res.out.err_text()
                )
            }) {
                return false;
            }
        }
        // success: epoch+1, both lookups, clock restarted, one event
        let h = cset.hash();
        {
            let mm = &mut self.gws[g].m;
            mm.epoch += 1;
            mm.by_epoch.insert(mm.epoch, h);
            mm.by_hash.insert(h, mm.epoch);
            mm.last_rotation = now;
        }
        self.known_sets.insert(h, cset.clone());
        let epoch = self.gws[g].m.epoch;
        let exp = vec![Ev {
            contract: addr_bytes(&gaddr),
            topics: vec![sym("signers_rotated"), ScVal::U64(epoch), sbytes(&h)],
            data: ScVal::Void,
        }];
        ctx.check(crate::judge::events_match(&res.events, &exp, &[]), &["C03"], "rotate/wrong-events", || {
            format!("expected signers_rotated({}, hash), got {:?}", epoch, res.events)
        });
        true
    }

    // ------------------------------------------------------------ retention sweep (C08)

    pub fn do_retention_sweep(&mut self, ctx: &mut Ctx, gw: u8, via_approve: bool) {
        let g = gw as usize % self.ngw();
        let epochs: Vec<(u64, [u8; 32])> =
            self.gws[g].m.by_epoch.iter().map(|(e, h)| (*e, *h)).collect();
        for (e, h) in epochs {
            if ctx.stopped() {
                return;
            }
            let Some(set) = self.known_sets.get(&h).cloned() else {
                continue;
            };
            // the set must be in the pool to be signed for through a ProofSpec
            let Some(pi) = self.cfg.pool.iter().position(|s| *s == set) else {
                continue;
            };
            let age = self.gws[g].m.epoch - e;
            let r = self.gws[g].m.retention;
            if age == r {
                ctx.count("probe.retention_boundary_still_valid");
            }
            if Some(age) == r.checked_add(1) {
                ctx.count("probe.retention_boundary_just_expired");
            }
            let spec = ProofSpec {
                set: pi as u8,
                mask: u64::MAX,
                tamper: Tamper::None,
                sig_fault: SigFault::None,
                digest: DigestVar::default(),
            };
            self.sweep_ctr += 1;
            // every other sweep presents the very same proof over the very same data as
            // an earlier sweep did for this set (a stale re-submission, F2); the others
            // use fresh data
            let tag: u32 = if self.sweep_ctr % 2 == 0 { 0x5eed_0000 + self.sweep_ctr } else { 0x0ead_0000 + e as u32 };
            self.do_validate_proof(ctx, gw, &spec, &DataSpec::Random(tag));
            if via_approve && !ctx.stopped() {
                let m = MMsg {
                    source_chain: "c08".to_string(),
                    message_id: format!("sweep-{:x}", tag),
                    source_address: "s".to_string(),
                    contract: addr_bytes(&self.principals[4]),
                    payload_hash: keccak(&tag.to_le_bytes()),
                    account: false,
                };
                let d = self.principals[4].clone();
                self.approve_resolved(ctx, g, &spec, &[m], &[d], None, &["C08", "C01"]);
            }
        }
    }

    // ------------------------------------------------------------ construction (C03)

    pub fn do_construct(&mut self, ctx: &mut Ctx, sets: &[Cand], retention: u64, delay: u64) {
        let env = self.env().clone();
        let msets: Vec<MSet> = sets.iter().map(|c| self.cand(c)).collect();
        let mut must_fail = msets.is_empty();
        let mut either = false;
        let mut repeated = false;
        let mut seen = std::collections::BTreeSet::new();
        for s in &msets {
            match s.well_formed() {
                Ok(()) => {}
                Err(true) => either = true,
                Err(false) => must_fail = true,
            }
            if !seen.insert(s.hash()) {
                must_fail = true;
                repeated = true;
                ctx.count("probe.construction_with_repeated_member");
            }
        }
        let sh = hash_of_sets(&msets);
        ctx.judged(&["C03", "C08", "C01"], sh, "construct", if must_fail { "refuse" } else if either { "either" } else { "accept" });
        let addr = Address::generate(&env);
        let mut init = SVec::new(&env);
        for s in &msets {
            init.push_back(mset_to_val(&env, s));
        }
        let owner = self.principals[0].clone();
        let operator = self.principals[1].clone();
        self.sim.set_auth(&[]);
        let pre = self.sim.digest();
        let r = catch_unwind(AssertUnwindSafe(|| {
            env.register_at(
                &addr,
                AxelarGateway,
                (&owner, &operator, BytesN::from_array(&env, &[7u8; 32]), delay, retention, init),
            )
        }));
        let ok = r.is_ok();
        self.sim.drain_events();
        ctx.trace_str(if ok { "ok" } else { "err" });
        ctx.note(|| format!("construct {} sets must_fail={} either={} -> {}", msets.len(), must_fail, either, ok));
        ctx.count(&format!("op.construct.{}.{}", if must_fail { "refuse" } else { "accept" }, if ok { "ok" } else { "err" }));
        if must_fail {
            // a set installed twice also corrupts the epoch numbering the retention window is counted in
            let tags: &[&'static str] = if repeated { &["C03", "C08", "C01"] } else { &["C03"] };
            if !ctx.check(!ok, tags, "construct/accepted-bad-initial-sets", || {
                format!("construction with an empty / malformed / repeated initial set list succeeded ({} sets)", msets.len())
            }) {
                return;
            }
        } else if !either {
            if !ctx.check(ok, &["C03"], "construct/good-initial-sets-refused", || {
                "construction with well-formed distinct initial sets failed".to_string()
            }) {
                return;
            }
        }
        if !ok {
            // nothing answers at that address, and nothing else moved
            let q = self.sim.query(&addr, "epoch", SVec::new(&env));
            ctx.check(q.is_err(), &["C03"], "construct/failed-construction-left-contract", || {
                "a gateway whose construction failed answers epoch()".to_string()
            });
            let _ = pre;
            return;
        }
        // epoch = k, both lookups mutually inverse over 1..k
        let k = msets.len() as u64;
        let e = self.sim.query(&addr, "epoch", SVec::new(&env));
        let ev = e.val().and_then(|v| u64::try_from_val_(&env, v));
        if !ctx.check(ev == Some(k), &["C03"], "construct/wrong-epoch", || format!("epoch after construction with {} sets is {:?}", k, ev)) {
            return;
        }
        for (i, s) in msets.iter().enumerate() {
            let h = s.hash();
            let a = self.sim.query(&addr, "signers_hash_by_epoch", (i as u64 + 1,).into_val(&env));
            let b = self.sim.query(&addr, "epoch_by_signers_hash", (BytesN::from_array(&env, &h),).into_val(&env));
            let av = a.val().and_then(|v| BytesN::<32>::try_from_val_(&env, v)).map(|b| b.to_array());
            let bv = b.val().and_then(|v| u64::try_from_val_(&env, v));
            if !ctx.check(av == Some(h) && bv == Some(i as u64 + 1), &["C03"], "construct/lookups-not-inverse", || {
                format!("after construction epoch {} -> {:?}, hash -> {:?}", i + 1, av.map(hex::encode), bv)
            }) {
                return;
            }
        }
    }

    // ------------------------------------------------------------ clock

    pub fn do_advance(&mut self, ctx: &mut Ctx, dt: &ClockMove, dseq: u32) {
        let now = self.sim.now();
        let new = match dt {
            ClockMove::Zero => {
                ctx.count("F10.no_progress");
                now
            }
            ClockMove::Plus(s) => now.saturating_add(*s as u64),
            ClockMove::Boundary { gw, delta } => {
                let g = *gw as usize % self.ngw();
                let m = &self.gws[g].m;
                let b = m.last_rotation.saturating_add(m.min_delay);
                let t = if *delta >= 0 { b.saturating_add(*delta as u64) } else { b.saturating_sub((-*delta) as u64) };
                ctx.count(&format!("F10.to_boundary{:+}", delta));
                t.max(now)
            }
            ClockMove::Far => {
                ctx.count("F10.far_jump");
                now.saturating_add(1 << 32)
            }
        };
        self.sim.set_time(new);
        ctx.sim_seconds = ctx.sim_seconds.saturating_add(new - now);
        let seq = self.sim.seq();
        let room = (self.sim.start_seq + MAX_SEQ_ADVANCE).saturating_sub(seq);
        let d = dseq.min(room);
        self.sim.set_seq(seq + d);
        ctx.sim_ledgers += d as u64;
        ctx.trace_u64(new);
        ctx.note(|| format!("advance to t={} seq+{}", new, d));
    }

    // ------------------------------------------------------------ roles (C06 rows of the gateway)

    pub fn do_transfer_role(
        &mut self,
        ctx: &mut Ctx,
        gw: u8,
        owner_role: bool,
        to: u8,
        auth: AuthVar,
        abort: Option<u16>,
    ) {
        let g = gw as usize % self.ngw();
        let env = self.env().clone();
        let to_i = to as usize % N_PRINCIPALS;
        let to_addr = self.principals[to_i].clone();
        let gaddr = self.gws[g].addr.clone();
        let m = self.gws[g].m.clone();
        let (holder, former, other) = if owner_role {
            (m.owner, m.former_owner, m.operator)
        } else {
            (m.operator, m.former_operator, m.owner)
        };
        let func: &'static str = if owner_role { "transfer_ownership" } else { "transfer_operatorship" };
        let args: SVec<Val> = (to_addr.clone(),).into_val(&env);
        let who: Option<usize> = match auth {
            AuthVar::Right | AuthVar::Everyone | AuthVar::RightOtherArgs | AuthVar::RootOnly => Some(holder),
            AuthVar::Former => Some(former.unwrap_or(P_STRANGER)),
            AuthVar::OtherRole | AuthVar::Owner => Some(other),
            AuthVar::Counterparty => Some(to_i),
            AuthVar::Stranger => Some(P_STRANGER),
            AuthVar::Nobody => None,
        };
        let mut entries = vec![];
        let mut ok = false;
        if let Some(w) = who {
            let other_args = matches!(auth, AuthVar::RightOtherArgs | AuthVar::RootOnly);
            let a: SVec<Val> = if other_args {
                (self.principals[(to_i + 1) % N_PRINCIPALS].clone(),).into_val(&env)
            } else {
                args.clone()
            };
            entries.push(AuthEntry {
                who: self.principals[w].clone(),
                root: AuthNode::new(&gaddr, func, a),
            });
            ok = w == holder && !other_args;
        }
        if auth.is_fault() {
            ctx.count(&format!("F7.{}.{}", func, auth.name()));
        }
        let sh = self.state_hash();
        ctx.judged(&["C06"], sh, func, if ok { "accept" } else { "refuse" });
        let res = self.sim.call(&gaddr, func, args, &entries, abort);
        ctx.trace_str(res.out.class());
        ctx.note(|| format!("{} gw{} to p{} auth={:?} ok={} -> {}", func, g, to_i, auth, ok, res.out.err_text()));
        if !self.panic_guard(ctx, &res, func) || !self.note_abort(ctx, &res, &["C06"]) {
            return;
        }
        ctx.count(&format!("op.{}.{}.{}", func, if ok { "accept" } else { "refuse" }, res.out.class()));
        if !ok {
            self.must_fail(ctx, &res, &["C06"], &format!("{}/accepted-without-holder-auth:{}", func, auth.name()), "not authorised by the current holder");
            return;
        }
        if !ctx.check(res.out.is_ok(), &["C06"], "role-transfer/holder-refused", || {
            format!("{} authorised by the current holder failed: {}", func, res.out.err_text())
        }) {
            return;
        }
        let exp = vec![Ev {
            contract: addr_bytes(&gaddr),
            topics: vec![
                sym(if owner_role { "ownership_transferred" } else { "operatorship_transferred" }),
                ScVal::Address((&self.principals[holder]).try_into().unwrap()),
                ScVal::Address((&to_addr).try_into().unwrap()),
            ],
            data: svec(vec![]),
        }];
        if !ctx.check(crate::judge::events_match(&res.events, &exp, &[]), &["C06"], "role-transfer/wrong-event", || {
            format!("expected one transfer event (previous, new), got {:?}", res.events)
        }) {
            return;
        }
        let mm = &mut self.gws[g].m;
        if owner_role {
            if to_i != holder {
                mm.former_owner = Some(holder);
            }
            mm.owner = to_i;
        } else {
            if to_i != holder {
                mm.former_operator = Some(holder);
            }
            mm.operator = to_i;
        }
    }

    // ------------------------------------------------------------ outbound (C13)

    pub fn do_call_contract(
        &mut self,
        ctx: &mut Ctx,
        gw: u8,
        sender: u8,
        chain: &StrSpec,
        addr: &StrSpec,
        payload: &PayloadSpec,
        auth: AuthVar,
        abort: Option<u16>,
    ) {
        let g = gw as usize % self.ngw();
        let env = self.env().clone();
        let s_i = 4 + (sender as usize % 4);
        let gaddr = self.gws[g].addr.clone();
        // sender 200 / 201: the gateway's own address / the example contract's address named
        // as sender by an outside caller (nobody can authorise for them from outside)
        let contract_sender: Option<Address> = match sender {
            200 => Some(gaddr.clone()),
            201 => Some(self.gws[g].example.clone()),
            _ => None,
        };
        // sender 100..103: the account address carrying the same 32 bytes as a principal's contract
        // address.  Its contract twin's authorisation is not the account's; only the permissive
        // mode (everybody authorises everything) speaks for it.
        let account_sender: Option<Address> = if (100..104).contains(&sender) { Some(crate::host::account_twin(&env, &self.principals[s_i])) } else { None };
        let s_addr = contract_sender.clone().or(account_sender.clone()).unwrap_or_else(|| self.principals[s_i].clone());
        if contract_sender.is_some() {
            ctx.count("probe.contract_address_named_as_sender_from_outside");
        }
        if account_sender.is_some() {
            ctx.count("probe.account_address_named_as_sender");
        }
        let pl = payload.resolve();
        let (c, a) = (chain.resolve(), addr.resolve());
        let args: SVec<Val> = (
            s_addr.clone(),
            SStr::from_str(&env, &c),
            SStr::from_str(&env, &a),
            Bytes::from_slice(&env, &pl),
        )
            .into_val(&env);
        if auth == AuthVar::Everyone && contract_sender.is_none() {
            self.sim.permissive_next = true;
        }
        let who: Option<usize> = match auth {
            AuthVar::Right | AuthVar::Everyone | AuthVar::RightOtherArgs | AuthVar::RootOnly => Some(s_i),
            AuthVar::Owner | AuthVar::OtherRole => Some(self.gws[g].m.owner),
            AuthVar::Counterparty | AuthVar::Former => Some(4 + ((sender as usize + 1) % 4)),
            AuthVar::Stranger => Some(P_STRANGER),
            AuthVar::Nobody => None,
        };
        let mut entries = vec![];
        let mut ok = false;
        if let Some(w) = who {
            let other_args = matches!(auth, AuthVar::RightOtherArgs | AuthVar::RootOnly);
            let mut aa = args.clone();
            if other_args {
                let mut p2 = pl.clone();
                p2.push(0);
                aa.set(3, Bytes::from_slice(&env, &p2).into_val(&env));
            }
            entries.push(AuthEntry {
                who: if account_sender.is_some() && auth == AuthVar::Everyone { s_addr.clone() } else { self.principals[w].clone() },
                root: AuthNode::new(&gaddr, "call_contract", aa),
            });
            ok = w == s_i && !other_args && contract_sender.is_none() && (account_sender.is_none() || auth == AuthVar::Everyone);
        }
        if auth.is_fault() {
            ctx.count(&format!("F7.call_contract.{}", auth.name()));
        }
        ctx.count(&format!("probe.call_contract.payload_len_{}", match pl.len() { 0 => "0", 1 => "1", 31 => "31", 32 => "32", 33 => "33", n if n >= 10_000 => "10k+", _ => "other" }));
        let sh = self.state_hash() ^ (pl.len() as u64) ^ crate::rng::fnv64(c.as_bytes());
        ctx.judged(&["C13", "C07"], sh, "call_contract", if ok { "accept" } else { "refuse" });
        let gw_before = self.sim.digest_of(&gaddr);
        let res = self.sim.call(&gaddr, "call_contract", args, &entries, abort);
        let gw_after = self.sim.digest_of(&gaddr);
        ctx.trace_str(res.out.class());
        ctx.note(|| format!("call_contract gw{} sender=p{} len={} auth={:?} -> {}", g, s_i, pl.len(), auth, res.out.err_text()));
        if !self.panic_guard(ctx, &res, "call_contract") || !self.note_abort(ctx, &res, &["C13"]) {
            return;
        }
        ctx.count(&format!("op.call_contract.{}.{}", if ok { "accept" } else { "refuse" }, res.out.class()));
        if !ok {
            self.must_fail(ctx, &res, &["C13", "C07"], "call_contract/accepted-without-senders-auth", "sender did not authorise");
            return;
        }
        if !ctx.check(res.out.is_ok(), &["C13"], "call_contract/authorised-call-failed", || {
            format!("call_contract by the authorised sender failed: {}", res.out.err_text())
        }) {
            return;
        }
        let exp = vec![Ev {
            contract: addr_bytes(&gaddr),
            topics: vec![
                sym("contract_called"),
                ScVal::Address((&s_addr).try_into().unwrap()),
                sstr(&c),
                sstr(&a),
                sbytes(&keccak(&pl)),
            ],
            data: sbytes(&pl),
        }];
        if !ctx.check(crate::judge::events_match(&res.events, &exp, &[]), &["C13"], "call_contract/wrong-announcement", || {
            format!(
                "expected exactly one contract_called(sender, chain, address, keccak(payload); payload); got {} event(s): {:?}",
                res.events.len(),
                res.events.iter().map(|e| e.name()).collect::<Vec<_>>()
            )
        }) {
            return;
        }
        ctx.check(gw_before == gw_after, &["C13"], "call_contract/changed-gateway-state", || {
            "call_contract changed the gateway's own ledger entries".to_string()
        });
    }

    pub fn do_example_send(
        &mut self,
        ctx: &mut Ctx,
        gw: u8,
        user: u8,
        chain: &StrSpec,
        addr: &StrSpec,
        payload: &PayloadSpec,
        gas: i64,
        auth: AuthVar,
        abort: Option<u16>,
    ) {
        let g = gw as usize % self.ngw();
        let env = self.env().clone();
        let u_i = 4 + (user as usize % 4);
        let u_addr = self.principals[u_i].clone();
        let gaddr = self.gws[g].addr.clone();
        let ex = self.gws[g].example.clone();
        let pl = payload.resolve();
        let (c, a) = (chain.resolve(), addr.resolve());
        let tok = Token { address: self.token.clone(), amount: gas as i128 };
        let args: SVec<Val> = (
            u_addr.clone(),
            SStr::from_str(&env, &c),
            SStr::from_str(&env, &a),
            Bytes::from_slice(&env, &pl),
            tok.clone(),
        )
            .into_val(&env);
        let pay_args: SVec<Val> = (
            ex.clone(),
            SStr::from_str(&env, &c),
            SStr::from_str(&env, &a),
            Bytes::from_slice(&env, &pl),
            u_addr.clone(),
            tok.clone(),
            Bytes::new(&env),
        )
            .into_val(&env);
        let xfer_args: SVec<Val> = (u_addr.clone(), self.gas.clone(), gas as i128).into_val(&env);
        if auth == AuthVar::Everyone {
            self.sim.permissive_next = true;
        }
        let who: Option<usize> = match auth {
            AuthVar::Right | AuthVar::Everyone | AuthVar::RootOnly | AuthVar::RightOtherArgs => Some(u_i),
            AuthVar::Owner | AuthVar::OtherRole => Some(self.gws[g].m.owner),
            AuthVar::Counterparty | AuthVar::Former => Some(4 + ((user as usize + 1) % 4)),
            AuthVar::Stranger => Some(P_STRANGER),
            AuthVar::Nobody => None,
        };
        let mut entries = vec![];
        let mut auth_ok = false;
        if let Some(w) = who {
            let mut root = AuthNode::new(&ex, "send", args.clone());
            match auth {
                AuthVar::RootOnly => {}
                AuthVar::RightOtherArgs => {
                    // nested gas payment authorised for a different amount
                    let x2: SVec<Val> = (u_addr.clone(), self.gas.clone(), gas as i128 + 1).into_val(&env);
                    root = root.with(AuthNode::new(&self.gas, "pay_gas", pay_args.clone()).with(AuthNode::new(&self.token, "transfer", x2)));
                }
                _ => {
                    root = root.with(AuthNode::new(&self.gas, "pay_gas", pay_args.clone()).with(AuthNode::new(&self.token, "transfer", xfer_args.clone())));
                }
            }
            entries.push(AuthEntry { who: self.principals[w].clone(), root });
            auth_ok = w == u_i && matches!(auth, AuthVar::Right | AuthVar::Everyone);
        }
        if auth.is_fault() {
            ctx.count(&format!("F7.example_send.{}", auth.name()));
        }
        let bal = *self.user_gas_balance.get(&u_i).unwrap_or(&0);
        let ok = auth_ok && gas > 0 && bal >= gas as i128;
        let sh = self.state_hash() ^ pl.len() as u64;
        ctx.judged(&["C13", "C07"], sh, "example_send", if ok { "accept" } else { "refuse" });
        let gw_before = self.sim.digest_of(&gaddr);
        let res = self.sim.call(&ex, "send", args, &entries, abort);
        let gw_after = self.sim.digest_of(&gaddr);
        ctx.trace_str(res.out.class());
        ctx.note(|| format!("example.send gw{} user=p{} gas={} auth={:?} ok={} -> {}", g, u_i, gas, auth, ok, res.out.err_text()));
        if !self.panic_guard(ctx, &res, "send") || !self.note_abort(ctx, &res, &["C13"]) {
            return;
        }
        ctx.count(&format!("op.example_send.{}.{}", if ok { "accept" } else { "refuse" }, res.out.class()));
        if !ok {
            let tags: &[&'static str] = if !auth_ok { &["C07", "C13"] } else { &["C13"] };
            self.must_fail(ctx, &res, tags, if !auth_ok { "example_send/accepted-without-users-auth" } else { "example_send/accepted-unpayable-gas" }, "not authorised or gas not payable");
            return;
        }
        if !ctx.check(res.out.is_ok(), &["C13"], "example_send/authorised-call-failed", || {
            format!("example.send by the authorised, funded user failed: {}", res.out.err_text())
        }) {
            return;
        }
        *self.user_gas_balance.get_mut(&u_i).unwrap() -= gas as i128;
        self.gas_held += gas as i128;
        let from_gw: Vec<&Ev> = res.events.iter().filter(|e| e.contract == addr_bytes(&gaddr) && e.name() == "contract_called").collect();
        let exp = Ev {
            contract: addr_bytes(&gaddr),
            topics: vec![
                sym("contract_called"),
                ScVal::Address((&ex).try_into().unwrap()),
                sstr(&c),
                sstr(&a),
                sbytes(&keccak(&pl)),
            ],
            data: sbytes(&pl),
        };
        if !ctx.check(from_gw.len() == 1 && *from_gw[0] == exp, &["C13"], "call_contract/wrong-announcement", || {
            format!("contract sender: expected exactly one contract_called naming the app as sender; got {} gateway event(s)", from_gw.len())
        }) {
            return;
        }
        ctx.check(gw_before == gw_after, &["C13"], "call_contract/changed-gateway-state", || {
            "an outbound call through the example changed the gateway's ledger entries".to_string()
        });
    }

    // ------------------------------------------------------------ invariants after every step

    pub fn invariants(&mut self, ctx: &mut Ctx, full: bool) {
        let env = self.env().clone();
        for g in 0..self.ngw() {
            if ctx.stopped() {
                return;
            }
            let gaddr = self.gws[g].addr.clone();
            let m = self.gws[g].m.clone();
            let e = self.sim.query(&gaddr, "epoch", SVec::new(&env));
            let ev = e.val().and_then(|v| u64::try_from_val_(&env, v));
            if !ctx.check(ev == Some(m.epoch), &["C03", "C08", "C01"], "invariant/epoch-differs", || {
                format!("gateway {} epoch() = {:?}, history says {}", g, ev, m.epoch)
            }) {
                return;
            }
            if !full {
                continue;
            }
            for (ep, h) in &m.by_epoch {
                let a = self.sim.query(&gaddr, "signers_hash_by_epoch", (*ep,).into_val(&env));
                let b = self.sim.query(&gaddr, "epoch_by_signers_hash", (BytesN::from_array(&env, h),).into_val(&env));
                let av = a.val().and_then(|v| BytesN::<32>::try_from_val_(&env, v)).map(|b| b.to_array());
                let bv = b.val().and_then(|v| u64::try_from_val_(&env, v));
                if !ctx.check(av == Some(*h) && bv == Some(*ep), &["C03", "C08", "C01"], "invariant/lookups-not-inverse", || {
                    format!("gateway {} epoch {}: hash_by_epoch={:?} epoch_by_hash={:?}", g, ep, av.map(hex::encode), bv)
                }) {
                    return;
                }
            }
            for ep in [0u64, m.epoch + 1] {
                let a = self.sim.query(&gaddr, "signers_hash_by_epoch", (ep,).into_val(&env));
                if !ctx.check(a.is_err(), &["C03"], "invariant/lookup-outside-installed-epochs", || {
                    format!("gateway {} signers_hash_by_epoch({}) answers but only 1..={} are installed", g, ep, m.epoch)
                }) {
                    return;
                }
            }
            for s in self.cfg.pool.iter() {
                let h = s.hash();
                if !m.by_hash.contains_key(&h) {
                    let b = self.sim.query(&gaddr, "epoch_by_signers_hash", (BytesN::from_array(&env, &h),).into_val(&env));
                    if !ctx.check(b.is_err(), &["C03"], "invariant/lookup-of-never-installed-set", || {
                        format!("gateway {} knows an epoch for a set that was never installed", g)
                    }) {
                        return;
                    }
                    break;
                }
            }
            // every message the model knows
            let keys: Vec<((String, String), MsgStatus)> = m.status.iter().map(|(k, v)| (k.clone(), v.clone())).collect();
            for ((chain, id), st) in keys.into_iter().take(12) {
                let mm = match &st {
                    MsgStatus::Approved(x) => x.clone(),
                    MsgStatus::Executed => MMsg {
                        source_chain: chain.clone(),
                        message_id: id.clone(),
                        source_address: String::new(),
                        contract: addr_bytes(&self.principals[4]),
                        payload_hash: [0; 32],
                        account: false,
                    },
                };
                let d = self.addr_of_msg(&mm);
                if !self.check_status(ctx, g, &mm, &d, &["C02"]) {
                    return;
                }
            }
            // role getters
            let o = self.sim.query(&gaddr, "owner", SVec::new(&env));
            let p = self.sim.query(&gaddr, "operator", SVec::new(&env));
            let ov = o.val().and_then(|v| Address::try_from_val_(&env, v));
            let pv = p.val().and_then(|v| Address::try_from_val_(&env, v));
            if !ctx.check(
                ov.as_ref() == Some(&self.principals[m.owner]) && pv.as_ref() == Some(&self.principals[m.operator]),
                &["C06", "C09"],
                "invariant/role-holder-differs",
                || format!("gateway {} owner()/operator() differ from the transfer history", g),
            ) {
                return;
            }
        }
    }

    /// history checks over the whole run
    pub fn history_checks(&mut self, ctx: &mut Ctx) {
        for g in 0..self.ngw() {
            for (k, n) in self.gws[g].approved_events.clone() {
                if !ctx.check(n <= 1, &["C02"], "history/approved-twice", || format!("{:?} approved {} times", k, n)) {
                    return;
                }
            }
            for (k, n) in self.gws[g].executed_events.clone() {
                if !ctx.check(n <= 1, &["C02"], "history/executed-twice", || format!("{:?} executed {} times", k, n)) {
                    return;
                }
            }
        }
    }

    // ------------------------------------------------------------ quiescent tail (bounded liveness)

    /// Faults are off.  An honest relayer drains every approved message, an
    /// honest verifier set approves and rotates, the operator still
    /// administers — all within a fixed number of steps.
    pub fn tail(&mut self, ctx: &mut Ctx) {
        self.in_tail = true;
        let env = self.env().clone();
        for g in 0..self.ngw() {
            if ctx.stopped() {
                return;
            }
            // 1. drain approved messages whose destination we can drive
            let pending: Vec<MMsg> = self.gws[g]
                .m
                .status
                .values()
                .filter_map(|s| match s {
                    MsgStatus::Approved(m) => Some(m.clone()),
                    _ => None,
                })
                .collect();
            for m in pending.into_iter().take(8) {
                if ctx.stopped() {
                    return;
                }
                if m.account {
                    // approved for an account nobody in the simulation can sign for: nothing to drain
                    continue;
                }
                let dest = self.addr_of_contract_id(&m.contract);
                let gaddr = self.gws[g].addr.clone();
                let key = (m.source_chain.clone(), m.message_id.clone());
                let p_idx = self.principals.iter().position(|p| *p == dest);
                if let Some(pi) = p_idx {
                    let args: SVec<Val> = (
                        dest.clone(),
                        SStr::from_str(&env, &m.source_chain),
                        SStr::from_str(&env, &m.message_id),
                        SStr::from_str(&env, &m.source_address),
                        BytesN::from_array(&env, &m.payload_hash),
                    )
                        .into_val(&env);
                    let entries = vec![AuthEntry { who: self.principals[pi].clone(), root: AuthNode::new(&gaddr, "validate_message", args.clone()) }];
                    let res = self.sim.call(&gaddr, "validate_message", args, &entries, None);
                    let got = res.out.val().and_then(|v| bool::try_from(v).ok());
                    ctx.count("tail.drain_consume");
                    if !ctx.check(got == Some(true), &["C02"], "liveness/approved-message-not-consumable", || {
                        format!("tail: approved message {:?} could not be consumed by its destination: {}", key, res.out.err_text())
                    }) {
                        return;
                    }
                    self.gws[g].m.status.insert(key, MsgStatus::Executed);
                } else if dest == self.gws[g].example || dest == self.gws[g].mini {
                    let Some(pl) = self.payload_by_hash.get(&m.payload_hash).cloned() else { continue };
                    let args: SVec<Val> = (
                        SStr::from_str(&env, &m.source_chain),
                        SStr::from_str(&env, &m.message_id),
                        SStr::from_str(&env, &m.source_address),
                        Bytes::from_slice(&env, &pl),
                    )
                        .into_val(&env);
                    let res = self.sim.call(&dest, "execute", args, &[], None);
                    ctx.count("tail.drain_deliver");
                    if !ctx.check(res.out.is_ok(), &["C16", "C02"], "liveness/approved-message-not-deliverable", || {
                        format!("tail: approved message {:?} could not be delivered to its app: {}", key, res.out.err_text())
                    }) {
                        return;
                    }
                    self.gws[g].m.status.insert(key, MsgStatus::Executed);
                }
            }
            // 2. the newest set approves a fresh message
            let latest_h = self.gws[g].m.by_epoch.get(&self.gws[g].m.epoch).copied();
            let latest_pool = latest_h.and_then(|h| self.known_sets.get(&h).cloned()).and_then(|s| self.cfg.pool.iter().position(|p| *p == s));
            let Some(lp) = latest_pool else { continue };
            let spec = ProofSpec { set: lp as u8, mask: u64::MAX, tamper: Tamper::None, sig_fault: SigFault::None, digest: DigestVar::default() };
            let m = MMsg {
                source_chain: "tail".to_string(),
                message_id: format!("fresh-{}", g),
                source_address: "s".to_string(),
                contract: addr_bytes(&self.principals[5]),
                payload_hash: keccak(b"tail"),
                account: false,
            };
            let d = self.principals[5].clone();
            ctx.count("tail.fresh_approval");
            if !self.approve_resolved(ctx, g, &spec, &[m], &[d], None, &["C01", "C02"]) {
                return;
            }
            // 3. a fresh well-formed rotation after waiting out the delay
            let mm = self.gws[g].m.clone();
            let t = mm.last_rotation.saturating_add(mm.min_delay).max(self.sim.now());
            ctx.sim_seconds = ctx.sim_seconds.saturating_add(t - self.sim.now());
            self.sim.set_time(t);
            let mut fresh = self.cfg.pool[lp].clone();
            fresh.nonce = keccak(&[b"tail-nonce".as_ref(), &[g as u8], &mm.epoch.to_le_bytes()].concat());
            if mm.by_hash.contains_key(&fresh.hash()) {
                continue;
            }
            ctx.count("tail.fresh_rotation");
            // a delay that cannot be waited out (last + delay overflows the clock) leaves
            // only the operator's bypass; that is a configuration, not a wedged state
            let waitable = mm.last_rotation.checked_add(mm.min_delay).is_some();
            let ok = if waitable {
                self.do_rotate(ctx, g as u8, &Cand::Inline(fresh), &spec, false, AuthVar::Nobody, None)
            } else {
                self.do_rotate(ctx, g as u8, &Cand::Inline(fresh), &spec, true, AuthVar::Right, None)
            };
            if ctx.stopped() {
                return;
            }
            if !ctx.check(ok, &["C03", "C09"], "liveness/honest-rotation-refused", || "tail: honest rotation did not succeed".to_string()) {
                return;
            }
            // 4. the operator can still administer
            let op = self.gws[g].m.operator;
            self.do_transfer_role(ctx, g as u8, false, op as u8, AuthVar::Right, None);
        }
    }
}

fn hash_of_sets(s: &[MSet]) -> u64 {
    crate::rng::hash_of(&s.iter().map(|x| x.hash()).collect::<Vec<_>>())
}

/// small conversion helpers on Val
pub trait TryFromValExt: Sized {
    fn try_from_val_(env: &soroban_sdk::Env, v: Val) -> Option<Self>;
}
impl TryFromValExt for u64 {
    fn try_from_val_(env: &soroban_sdk::Env, v: Val) -> Option<Self> {
        use soroban_sdk::TryFromVal;
        u64::try_from_val(env, &v).ok()
    }
}
impl TryFromValExt for BytesN<32> {
    fn try_from_val_(env: &soroban_sdk::Env, v: Val) -> Option<Self> {
        use soroban_sdk::TryFromVal;
        BytesN::<32>::try_from_val(env, &v).ok()
    }
}
impl TryFromValExt for Address {
    fn try_from_val_(env: &soroban_sdk::Env, v: Val) -> Option<Self> {
        use soroban_sdk::TryFromVal;
        Address::try_from_val(env, &v).ok()
    }
}

pub fn _keep(_: BTreeMap<u8, u8>) {}
