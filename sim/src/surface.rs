//! The exported surface of the contracts, read from the sources the simulator was just built from.
//!
//! Every property about authorisation quantifies over "every entry point".  The worlds drive the
//! entry points that exist at the pinned commit; an entry point *added* by a change is outside
//! their operation alphabets.  This module lists the functions exported through `#[contractimpl]`
//! blocks of each contract's sources, subtracts the ones known at the pinned commit, and lets a
//! world invoke whatever is left with generated arguments and **nobody's authorisation** (fault
//! kind F7 over the whole surface).  Such a call may fail, or succeed as a pure query; if it
//! succeeds and emits events or changes ledger data, something acted in the name of addresses
//! that authorised nothing.
//!
//! On the pinned tree the list of unlisted entry points is empty and nothing here executes.

use crate::engine::Ctx;
use crate::host::Sim;
use soroban_sdk::xdr::{ScMap, ScMapEntry, ScSymbol, ScVal, ScVec, StringM, VecM};
use soroban_sdk::{Address, Bytes, BytesN, Env, IntoVal, String as SStr, Symbol, TryFromVal, Val, Vec as SVec};
use std::collections::BTreeMap;
use std::sync::OnceLock;

pub const REPO_DIR: &str = "/repo";

#[derive(Clone, Debug)]
pub struct EntryPoint {
    pub name: &'static str,
    pub params: Vec<String>,
}

/// entry points exported by `#[contractimpl]` blocks at the pinned commit (derive-generated ones excluded)
const KNOWN: &[(&str, &[&str])] = &[
    (
        "axelar-gateway",
        &[
            "__constructor", "call_contract", "is_message_approved", "is_message_executed", "validate_message", "approve_messages", "rotate_signers", "epoch",
            "epoch_by_signers_hash", "signers_hash_by_epoch", "validate_proof",
        ],
    ),
    ("axelar-gas-service", &["__constructor", "pay_gas", "add_gas", "collect_fees", "refund", "gas_collector"]),
    ("axelar-operators", &["__constructor", "is_operator", "add_operator", "remove_operator", "execute"]),
    (
        "interchain-token-service",
        &[
            "__constructor", "chain_name", "gas_service", "interchain_token_wasm_hash", "its_hub_address", "its_hub_chain_name", "is_trusted_chain", "set_trusted_chain",
            "remove_trusted_chain", "interchain_token_deploy_salt", "interchain_token_id", "canonical_token_deploy_salt", "token_address", "token_manager_type",
            "deploy_interchain_token", "deploy_remote_interchain_token", "deploy_remote_canonical_token", "interchain_transfer", "register_canonical_token", "gateway", "execute",
        ],
    ),
    (
        "interchain-token",
        &[
            "__constructor", "set_admin", "admin", "set_authorized", "authorized", "mint", "clawback", "token_id", "is_minter", "mint_from", "add_minter", "remove_minter",
            "allowance", "approve", "balance", "transfer", "transfer_from", "burn", "burn_from", "decimals", "name", "symbol", "owner", "transfer_ownership",
        ],
    ),
    ("example", &["gateway", "execute", "__constructor", "gas_service", "send"]),
    ("upgrader", &["__constructor", "upgrade"]),
];

fn strip_comments(src: &str) -> String {
    let mut out = String::with_capacity(src.len());
    for line in src.lines() {
        let l = match line.find("//") {
            Some(i) => &line[..i],
            None => line,
        };
        out.push_str(l);
        out.push('\n');
    }
    out
}

fn split_top(s: &str) -> Vec<String> {
    let mut parts = vec![];
    let (mut depth, mut cur) = (0i32, String::new());
    for ch in s.chars() {
        match ch {
            '<' | '(' | '[' => depth += 1,
            '>' | ')' | ']' => depth -= 1,
            ',' if depth == 0 => {
                parts.push(cur.trim().to_string());
                cur.clear();
                continue;
            }
            _ => {}
        }
        cur.push(ch);
    }
    if !cur.trim().is_empty() {
        parts.push(cur.trim().to_string());
    }
    parts
}

/// all functions exported through `#[contractimpl]` blocks in one source text
fn scan_source(text: &str, out: &mut Vec<(String, Vec<String>)>) {
    let t = strip_comments(text);
    let b = t.as_bytes();
    let mut pos = 0usize;
    while let Some(i) = t[pos..].find("#[contractimpl]") {
        let start = pos + i + "#[contractimpl]".len();
        let Some(impl_rel) = t[start..].find("impl") else { break };
        let hdr_start = start + impl_rel;
        let Some(brace_rel) = t[hdr_start..].find('{') else { break };
        let header = &t[hdr_start..hdr_start + brace_rel];
        let is_trait = header.contains(" for ");
        // matching brace
        let body_start = hdr_start + brace_rel + 1;
        let (mut depth, mut j) = (1i32, body_start);
        while j < b.len() && depth > 0 {
            match b[j] {
                b'{' => depth += 1,
                b'}' => depth -= 1,
                _ => {}
            }
            j += 1;
        }
        let body = &t[body_start..j.saturating_sub(1).max(body_start)];
        // functions at depth 0 of the body
        let bb = body.as_bytes();
        let (mut d, mut k) = (0i32, 0usize);
        while k < bb.len() {
            match bb[k] {
                b'{' => d += 1,
                b'}' => d -= 1,
                b'f' if d == 0 && body[k..].starts_with("fn ") && (k == 0 || !(bb[k - 1] as char).is_alphanumeric() && bb[k - 1] != b'_') => {
                    // visibility: the text between the previous `;`/`}`/`{`/`]` and here
                    let before = &body[..k];
                    let cut = before.rfind(|c| c == ';' || c == '}' || c == '{' || c == ']').map(|x| x + 1).unwrap_or(0);
                    let vis = before[cut..].trim();
                    let exported = is_trait || vis.starts_with("pub");
                    let rest = &body[k + 3..];
                    let name: String = rest.chars().take_while(|c| c.is_alphanumeric() || *c == '_').collect();
                    if let Some(po) = rest.find('(') {
                        let (mut pd, mut e) = (1i32, po + 1);
                        let rb = rest.as_bytes();
                        while e < rb.len() && pd > 0 {
                            match rb[e] {
                                b'(' => pd += 1,
                                b')' => pd -= 1,
                                _ => {}
                            }
                            e += 1;
                        }
                        let plist = &rest[po + 1..e - 1];
                        let params: Vec<String> = split_top(plist)
                            .into_iter()
                            .filter_map(|p| p.split_once(':').map(|(_, ty)| ty.trim().to_string()))
                            .filter(|ty| !ty.trim_start_matches('&').trim().ends_with("Env"))
                            .collect();
                        if exported && !name.is_empty() {
                            out.push((name, params));
                        }
                    }
                }
                _ => {}
            }
            k += 1;
        }
        pos = j.min(t.len());
    }
}

fn scan_dir(dir: &std::path::Path, out: &mut Vec<(String, Vec<String>)>) {
    let Ok(rd) = std::fs::read_dir(dir) else { return };
    let mut entries: Vec<_> = rd.filter_map(|e| e.ok()).map(|e| e.path()).collect();
    entries.sort();
    for p in entries {
        if p.is_dir() {
            scan_dir(&p, out);
        } else if p.extension().map(|e| e == "rs").unwrap_or(false) {
            let name = p.file_name().unwrap().to_string_lossy().to_string();
            if name.contains("test") {
                continue;
            }
            if let Ok(t) = std::fs::read_to_string(&p) {
                scan_source(&t, out);
            }
        }
    }
}

/// everything exported by a contract's sources
pub fn exported(contract: &str) -> Vec<(String, Vec<String>)> {
    let mut v = vec![];
    scan_dir(&std::path::Path::new(REPO_DIR).join("contracts").join(contract).join("src"), &mut v);
    v
}

fn table() -> &'static BTreeMap<&'static str, Vec<EntryPoint>> {
    static T: OnceLock<BTreeMap<&'static str, Vec<EntryPoint>>> = OnceLock::new();
    T.get_or_init(|| {
        let mut m = BTreeMap::new();
        for (c, known) in KNOWN {
            let mut extra = vec![];
            for (name, params) in exported(c) {
                if !known.contains(&name.as_str()) && !extra.iter().any(|e: &EntryPoint| e.name == name) {
                    extra.push(EntryPoint { name: Box::leak(name.into_boxed_str()), params });
                }
            }
            m.insert(*c, extra);
        }
        m
    })
}

/// entry points the sources export that did not exist at the pinned commit
pub fn unlisted(contract: &str) -> &'static [EntryPoint] {
    table().get(contract).map(|v| v.as_slice()).unwrap_or(&[])
}

fn sym(s: &str) -> ScVal {
    ScVal::Symbol(ScSymbol(StringM::try_from(s).unwrap()))
}

/// a value of the declared Rust type, or None if the simulator does not know how to make one
fn gen_val(env: &Env, ty: &str, variant: usize, idx: usize, addrs: &[Address]) -> Option<Val> {
    let ty = ty.trim().trim_start_matches('&').trim();
    let a = || addrs[(variant + idx) % addrs.len()].clone();
    Some(match ty {
        "Address" => a().into_val(env),
        "String" => SStr::from_str(env, ["ethereum", "0xaa-0", "x"][(variant + idx) % 3]).into_val(env),
        "Bytes" => Bytes::from_slice(env, if variant % 2 == 0 { &[1u8, 2, 3] } else { &[] }).into_val(env),
        "BytesN<32>" => BytesN::from_array(env, &[7u8 + variant as u8; 32]).into_val(env),
        "u32" => (1u32 + variant as u32).into_val(env),
        "u64" => (1u64 + variant as u64).into_val(env),
        "u128" => (1u128 + variant as u128).into_val(env),
        "i128" => (1i128 + variant as i128).into_val(env),
        "i64" => (1i64).into_val(env),
        "bool" => (variant % 2 == 0).into_val(env),
        "Symbol" => Symbol::new(env, "noop").into_val(env),
        "Val" => ().into_val(env),
        "Token" => {
            let m = ScVal::Map(Some(ScMap(
                VecM::try_from(vec![
                    ScMapEntry { key: sym("address"), val: ScVal::try_from_val(env, &a().to_val()).ok()? },
                    ScMapEntry { key: sym("amount"), val: { let v: Val = (1i128 + variant as i128).into_val(env); ScVal::try_from_val(env, &v).ok()? } },
                ])
                .ok()?,
            )));
            Val::try_from_val(env, &m).ok()?
        }
        t if t.starts_with("Option<") => ().into_val(env),
        t if t.starts_with("Vec<") => Val::try_from_val(env, &ScVal::Vec(Some(ScVec(VecM::default())))).ok()?,
        _ => return None,
    })
}

/// Invoke every unlisted entry point of `contract_name` (deployed at `contract`) a few times with
/// generated arguments and no authorisation at all.  `tags_events` / `tags_data` are the properties
/// an effect of the respective kind bears on.
pub fn probe_unlisted(ctx: &mut Ctx, sim: &mut Sim, contract: &Address, contract_name: &str, addrs: &[Address], tags_events: &[&'static str], tags_data: &[&'static str]) {
    let list = unlisted(contract_name);
    if list.is_empty() || ctx.stopped() {
        return;
    }
    let env = sim.env.clone();
    for ep in list.iter().take(6) {
        if ep.name.starts_with("__") {
            continue;
        }
        for variant in 0..3usize {
            let mut args: SVec<Val> = SVec::new(&env);
            let mut ok = true;
            for (i, ty) in ep.params.iter().enumerate() {
                match gen_val(&env, ty, variant, i, addrs) {
                    Some(v) => args.push_back(v),
                    None => {
                        ok = false;
                        break;
                    }
                }
            }
            if !ok {
                ctx.count("probe.unlisted_entry_point_with_arguments_the_simulator_cannot_generate");
                break;
            }
            ctx.count("F7.unlisted_entry_point_called_without_any_authorisation");
            let res = sim.call(contract, ep.name, args, &[], None);
            ctx.note(|| format!("unlisted entry point {}::{} (variant {}) with nobody's authorisation -> {}", contract_name, ep.name, variant, res.out.err_text()));
            if res.out.is_err() {
                continue;
            }
            if !res.events.is_empty() {
                if !ctx.check(false, tags_events, "unlisted-entry-point/emits-without-anyones-authorisation", || {
                    format!("{}::{} is exported, is not an entry point of the pinned interface, and with no authorisation at all it emitted {:?}", contract_name, ep.name, res.events)
                }) {
                    return;
                }
            }
            if !res.unchanged_data() {
                if !ctx.check(false, tags_data, "unlisted-entry-point/changes-state-without-anyones-authorisation", || {
                    format!("{}::{} is exported, is not an entry point of the pinned interface, and with no authorisation at all it changed ledger data", contract_name, ep.name)
                }) {
                    return;
                }
            }
        }
    }
}

/// `axsim surface`: print what the scanner sees (used to freeze KNOWN)
pub fn print_surface() {
    for (c, known) in KNOWN {
        let ex = exported(c);
        let names: Vec<&str> = ex.iter().map(|(n, _)| n.as_str()).collect();
        println!("{}: exported {:?}", c, names);
        let missing: Vec<&&str> = known.iter().filter(|k| !names.contains(*k)).collect();
        let extra: Vec<&(String, Vec<String>)> = ex.iter().filter(|(n, _)| !known.contains(&n.as_str())).collect();
        println!("  known but not seen: {:?}", missing);
        println!("  unlisted: {:?}", extra);
    }
}
