mod abi;
mod common;
mod engine;
mod harness;
mod host;
mod judge;
mod oracle;
mod rng;
mod surface;
mod worlds;

use engine::{Agg, Known, ReplayFile, World};
use std::time::Instant;

fn usage() -> ! {
    eprintln!("usage: axsim check <C01..C18> [--tier quick|thorough] [--runs N]\n       axsim replay <file>\n       axsim selftest");
    std::process::exit(2)
}

const RULE: &str = "one evaluation = one seeded simulated run (fresh host, generated schedule of 20-80 operations with faults, quiescent tail); distinct_nontrivial = number of distinct (abstract model state hash, operation kind) pairs in which an operation relevant to this property was judged against the reference model, union over all runs";

const RULE_MATRIX: &str = "one evaluation = one seeded simulated run in one of the worlds serving this property, with the operation mix biased to the entry points the property lists and to authorisation faults (F7: former holder, other role, counterparty/beneficiary, owner, stranger, nobody, right principal for other arguments, root-only coverage of a nested tree); the entry point x principal matrix is in coverage.faults_fired (refused cells) and coverage.outcomes (accepted cells); distinct_nontrivial = distinct (abstract model state hash, entry point) pairs judged";

struct Plan {
    quick: u64,
    thorough: u64,
}

fn selftest() -> i32 {
    match (abi::selftest("/repo"), oracle::selftest("/repo")) {
        (Ok(a), Ok(b)) => {
            println!("selftest: independent recipes agree with {} golden vectors of the repository", a + b);
            0
        }
        (a, b) => {
            if let Err(e) = a {
                eprintln!("harness error: {}", e);
            }
            if let Err(e) = b {
                eprintln!("harness error: {}", e);
            }
            2
        }
    }
}

fn check(prop: &'static str, tier: &str, runs_override: Option<u64>) -> i32 {
    if selftest() != 0 {
        return 2;
    }
    let seed: u64 = std::env::var("VERIF_SEED").ok().and_then(|s| s.parse().ok()).unwrap_or(1);
    let known = Known::load();
    let thorough = tier == "thorough";
    let mut agg = Agg::new(prop, tier, seed);
    let start = Instant::now();
    let cap: u64 = if thorough { 20 * 60 } else { 0 };
    let n = |p: Plan| runs_override.unwrap_or(if thorough { p.thorough } else { p.quick });
    let rule: &str;
    match prop {
        "C13" => {
            run::<worlds::g::WorldG>(&mut agg, prop, n(Plan { quick: 2500, thorough: 150_000 }), thorough, &known, cap / 2);
            run::<worlds::i::WorldI>(&mut agg, prop, runs_override.unwrap_or(if thorough { 40_000 } else { 500 }), thorough, &known, cap / 2);
            rule = RULE;
        }
        "C08" => {
            // every rotation is followed by a sweep over all installed sets: runs are ~3x heavier
            run::<worlds::g::WorldG>(&mut agg, prop, n(Plan { quick: 1500, thorough: 100_000 }), thorough, &known, cap);
            rule = RULE;
        }
        "C01" | "C02" | "C03" | "C09" | "C16" => {
            run::<worlds::g::WorldG>(&mut agg, prop, n(Plan { quick: 3000, thorough: 200_000 }), thorough, &known, cap);
            rule = RULE;
        }
        "C10" => {
            run::<worlds::c::WorldC>(&mut agg, prop, n(Plan { quick: 2500, thorough: 500_000 }), thorough, &known, cap / 2);
            run::<worlds::i::WorldI>(&mut agg, prop, runs_override.unwrap_or(if thorough { 50_000 } else { 500 }), thorough, &known, cap / 2);
            rule = "world C: one evaluation = one run of 40 codec cases (generated message, mutated encoding or random bytes) through the repository's encoder/decoder against the independent encoder; world I: one simulated run with corrupted payloads approved and delivered in situ; distinct_nontrivial = distinct (case hash | model state hash, kind) pairs judged";
        }
        "C04" | "C05" | "C11" | "C18" => {
            run::<worlds::i::WorldI>(&mut agg, prop, n(Plan { quick: 1500, thorough: 100_000 }), thorough, &known, cap);
            rule = RULE;
        }
        "C06" => {
            let k = |q: u64, t: u64| runs_override.unwrap_or(if thorough { t } else { q });
            run::<worlds::g::WorldG>(&mut agg, prop, k(800, 40_000), thorough, &known, cap / 6);
            run::<worlds::t::WorldT>(&mut agg, prop, k(800, 40_000), thorough, &known, cap / 6);
            run::<worlds::s::WorldS>(&mut agg, prop, k(800, 40_000), thorough, &known, cap / 6);
            run::<worlds::o::WorldO>(&mut agg, prop, k(800, 40_000), thorough, &known, cap / 6);
            run::<worlds::i::WorldI>(&mut agg, prop, k(500, 20_000), thorough, &known, cap / 6);
            run::<worlds::u::WorldU>(&mut agg, prop, k(800, 40_000), thorough, &known, cap / 6);
            rule = RULE_MATRIX;
        }
        "C07" => {
            let k = |q: u64, t: u64| runs_override.unwrap_or(if thorough { t } else { q });
            run::<worlds::t::WorldT>(&mut agg, prop, k(1000, 50_000), thorough, &known, cap / 5);
            run::<worlds::s::WorldS>(&mut agg, prop, k(800, 40_000), thorough, &known, cap / 5);
            run::<worlds::g::WorldG>(&mut agg, prop, k(800, 40_000), thorough, &known, cap / 5);
            run::<worlds::o::WorldO>(&mut agg, prop, k(800, 40_000), thorough, &known, cap / 5);
            run::<worlds::i::WorldI>(&mut agg, prop, k(600, 25_000), thorough, &known, cap / 5);
            rule = RULE_MATRIX;
        }
        "C15" => {
            run::<worlds::u::WorldU>(&mut agg, prop, n(Plan { quick: 1500, thorough: 100_000 }), thorough, &known, cap);
            rule = RULE;
        }
        "C14" => {
            run::<worlds::s::WorldS>(&mut agg, prop, n(Plan { quick: 3000, thorough: 200_000 }), thorough, &known, cap);
            rule = RULE;
        }
        "C17" => {
            run::<worlds::o::WorldO>(&mut agg, prop, n(Plan { quick: 3000, thorough: 200_000 }), thorough, &known, cap);
            rule = RULE;
        }
        "C12" => {
            run::<worlds::t::WorldT>(&mut agg, prop, n(Plan { quick: 3000, thorough: 200_000 }), thorough, &known, cap);
            rule = RULE;
        }
        _ => {
            eprintln!("harness error: no check registered for {}", prop);
            return 2;
        }
    }
    let wall = start.elapsed().as_secs_f64();
    engine::finish(
        &agg,
        wall,
        rule,
        vec![
            "soroban-env-host 22.1 test host is a faithful ledger (auth matching, rollback, TTL, budget abort)".into(),
            "contracts run natively (not as wasm); injected aborts land on host-call boundaries".into(),
            "oracle recipes (stellar-xdr, sha3, ed25519-dalek, hand-written ABI) are correct; self-tested against the repository's golden vectors".into(),
            "sampling: a clean batch is evidence, not proof".into(),
        ],
    )
}

fn run<W: World>(agg: &mut Agg, prop: &'static str, runs: u64, thorough: bool, known: &Known, cap: u64) {
    engine::run_world::<W>(agg, prop, runs, thorough, known, cap);
}

fn replay(path: &str) -> i32 {
    let s = match std::fs::read_to_string(path) {
        Ok(s) => s,
        Err(e) => {
            eprintln!("harness error: cannot read {}: {}", path, e);
            return 2;
        }
    };
    let rf: ReplayFile = match serde_json::from_str(&s) {
        Ok(r) => r,
        Err(e) => {
            eprintln!("harness error: cannot parse {}: {}", path, e);
            return 2;
        }
    };
    let known = Known::load();
    let code = match rf.world.as_str() {
        "G" => engine::replay::<worlds::g::WorldG>(&rf, &known),
        "T" => engine::replay::<worlds::t::WorldT>(&rf, &known),
        "S" => engine::replay::<worlds::s::WorldS>(&rf, &known),
        "I" => engine::replay::<worlds::i::WorldI>(&rf, &known),
        "C" => engine::replay::<worlds::c::WorldC>(&rf, &known),
        "U" => engine::replay::<worlds::u::WorldU>(&rf, &known),
        "O" => engine::replay::<worlds::o::WorldO>(&rf, &known),
        w => {
            eprintln!("harness error: unknown world {}", w);
            2
        }
    };
    if code == 1 {
        println!("VIOLATION property={} replay={}", rf.property, path);
    }
    code
}

fn main() {
    host::install_quiet_panic_hook();
    let args: Vec<String> = std::env::args().collect();
    if args.len() < 2 {
        usage();
    }
    let code = match args[1].as_str() {
        "check" => {
            if args.len() < 3 {
                usage();
            }
            let prop = engine::ALL_PROPS.iter().find(|p| **p == args[2]).copied().unwrap_or_else(|| usage());
            let mut tier = std::env::var("VERIF_TIER").unwrap_or_else(|_| "quick".into());
            let mut runs = None;
            let mut i = 3;
            while i < args.len() {
                match args[i].as_str() {
                    "--tier" => {
                        tier = args.get(i + 1).cloned().unwrap_or_else(|| usage());
                        i += 2;
                    }
                    "--runs" => {
                        runs = args.get(i + 1).and_then(|s| s.parse().ok());
                        i += 2;
                    }
                    _ => usage(),
                }
            }
            if tier != "quick" && tier != "thorough" {
                usage();
            }
            check(prop, &tier, runs)
        }
        "selftest" => selftest(),
        "surface" => {
            surface::print_surface();
            0
        }
        "traces" => {
            // axsim traces <world> <prop> <runs>: one line per run, for the cross-process determinism test
            let world = args.get(2).cloned().unwrap_or_default();
            let prop = engine::ALL_PROPS.iter().find(|p| Some(**p) == args.get(3).map(|s| s.as_str())).copied().unwrap_or_else(|| usage());
            let runs: u64 = args.get(4).and_then(|s| s.parse().ok()).unwrap_or(200);
            let seed: u64 = std::env::var("VERIF_SEED").ok().and_then(|s| s.parse().ok()).unwrap_or(1);
            let known = Known::load();
            let v = match world.as_str() {
                "G" => engine::dump_traces::<worlds::g::WorldG>(prop, seed, runs, &known),
                "T" => engine::dump_traces::<worlds::t::WorldT>(prop, seed, runs, &known),
                "S" => engine::dump_traces::<worlds::s::WorldS>(prop, seed, runs, &known),
                "O" => engine::dump_traces::<worlds::o::WorldO>(prop, seed, runs, &known),
                "I" => engine::dump_traces::<worlds::i::WorldI>(prop, seed, runs, &known),
                "C" => engine::dump_traces::<worlds::c::WorldC>(prop, seed, runs, &known),
                "U" => engine::dump_traces::<worlds::u::WorldU>(prop, seed, runs, &known),
                _ => usage(),
            };
            for (i, s, h) in v {
                println!("{} {} {:016x}", i, s, h);
            }
            0
        }
        "replay" => {
            if args.len() < 3 {
                usage();
            }
            replay(&args[2])
        }
        _ => usage(),
    };
    std::process::exit(code);
}
