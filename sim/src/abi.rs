//! Independent Solidity-ABI encoder for the four ITS message structs (the
//! hub stub's side of the wire).  Hand-written head/tail encoding; no alloy.
//!
//! Layout ("params" encoding: the struct's members as a tuple, no outer offset):
//!   InterchainTransfer    = (uint256 0, bytes32 id, bytes src, bytes dst, uint256 amount, bytes data)
//!   DeployInterchainToken = (uint256 1, bytes32 id, string name, string symbol, uint8 decimals, bytes minter)
//!   SendToHub             = (uint256 3, string chain, bytes inner)
//!   ReceiveFromHub        = (uint256 4, string chain, bytes inner)
//! dynamic members: 32-byte offset (from the start of the tuple) into a tail of
//! (length word, data right-padded with zeros to a multiple of 32), tails in
//! member order, no gaps.

pub type Word = [u8; 32];

pub fn w(v: u128) -> Word {
    let mut o = [0u8; 32];
    o[16..].copy_from_slice(&v.to_be_bytes());
    o
}

fn tail(data: &[u8]) -> Vec<u8> {
    let mut t = w(data.len() as u128).to_vec();
    t.extend_from_slice(data);
    let pad = (32 - data.len() % 32) % 32;
    t.extend(std::iter::repeat(0u8).take(pad));
    t
}

enum Member<'a> {
    Static(Word),
    Dynamic(&'a [u8]),
}

fn encode_tuple(members: &[Member]) -> Vec<u8> {
    let head_len = 32 * members.len();
    let mut head: Vec<u8> = Vec::with_capacity(head_len);
    let mut tails: Vec<u8> = vec![];
    for m in members {
        match m {
            Member::Static(wd) => head.extend_from_slice(wd),
            Member::Dynamic(d) => {
                head.extend_from_slice(&w((head_len + tails.len()) as u128));
                tails.extend(tail(d));
            }
        }
    }
    head.extend(tails);
    head
}

pub fn enc_transfer(tag: Word, id: &[u8; 32], src: &[u8], dst: &[u8], amount: Word, data: &[u8]) -> Vec<u8> {
    encode_tuple(&[
        Member::Static(tag),
        Member::Static(*id),
        Member::Dynamic(src),
        Member::Dynamic(dst),
        Member::Static(amount),
        Member::Dynamic(data),
    ])
}

pub fn enc_deploy(tag: Word, id: &[u8; 32], name: &[u8], symbol: &[u8], decimals: Word, minter: &[u8]) -> Vec<u8> {
    encode_tuple(&[
        Member::Static(tag),
        Member::Static(*id),
        Member::Dynamic(name),
        Member::Dynamic(symbol),
        Member::Static(decimals),
        Member::Dynamic(minter),
    ])
}

pub fn enc_hub(tag: Word, chain: &[u8], inner: &[u8]) -> Vec<u8> {
    encode_tuple(&[Member::Static(tag), Member::Dynamic(chain), Member::Dynamic(inner)])
}

/// A message as the oracle sees it (plain data, no soroban types).
#[derive(Clone, Debug, PartialEq, Eq, Hash)]
pub enum AMsg {
    Transfer { id: [u8; 32], src: Vec<u8>, dst: Vec<u8>, amount: u128, data: Vec<u8> },
    Deploy { id: [u8; 32], name: String, symbol: String, decimals: u8, minter: Vec<u8> },
}

#[derive(Clone, Debug, PartialEq, Eq, Hash)]
pub struct AHub {
    /// true = SendToHub (3), false = ReceiveFromHub (4)
    pub send: bool,
    pub chain: String,
    pub msg: AMsg,
}

impl AMsg {
    pub fn encode(&self) -> Vec<u8> {
        match self {
            AMsg::Transfer { id, src, dst, amount, data } => enc_transfer(w(0), id, src, dst, w(*amount), data),
            AMsg::Deploy { id, name, symbol, decimals, minter } => enc_deploy(w(1), id, name.as_bytes(), symbol.as_bytes(), w(*decimals as u128), minter),
        }
    }
}

impl AHub {
    pub fn encode(&self) -> Vec<u8> {
        enc_hub(w(if self.send { 3 } else { 4 }), self.chain.as_bytes(), &self.msg.encode())
    }
}

/// Self-test against the repository's golden vectors (ten encodings).
pub fn selftest(repo: &str) -> Result<usize, String> {
    let read = |name: &str| -> Result<Vec<String>, String> {
        let p = format!("{}/contracts/interchain-token-service/src/testdata/{}.golden", repo, name);
        let s = std::fs::read_to_string(&p).map_err(|e| format!("{}: {}", p, e))?;
        serde_json::from_str::<Vec<String>>(&s).map_err(|e| format!("{}: {}", p, e))
    };
    let addr = hex::decode("4F4495243837681061C4743b74B3eEdf548D56A5").unwrap();
    let t1 = AMsg::Transfer { id: [0; 32], src: vec![0], dst: vec![0], amount: 1, data: vec![] };
    let t2 = AMsg::Transfer { id: [255; 32], src: addr.clone(), dst: addr.clone(), amount: i128::MAX as u128, data: vec![0xab, 0xcd] };
    let ours: Vec<Vec<u8>> = vec![
        AHub { send: true, chain: "chain".into(), msg: t1.clone() }.encode(),
        AHub { send: true, chain: "chain".into(), msg: t2.clone() }.encode(),
        AHub { send: false, chain: "chain".into(), msg: t1 }.encode(),
        AHub { send: false, chain: "chain".into(), msg: t2 }.encode(),
    ];
    let gold = read("interchain_transfer_encode_decode")?;
    if gold.len() != ours.len() {
        return Err("transfer golden count".into());
    }
    for (i, (g, o)) in gold.iter().zip(ours.iter()).enumerate() {
        if *g != hex::encode(o) {
            return Err(format!("independent ABI encoder disagrees with transfer golden vector {}", i));
        }
    }
    let d1 = AMsg::Deploy { id: [0; 32], name: "t".into(), symbol: "T".into(), decimals: 0, minter: vec![] };
    let d2 = AMsg::Deploy { id: [1; 32], name: "Test Token".into(), symbol: "TST".into(), decimals: 18, minter: vec![0x12, 0x34] };
    let d3 = AMsg::Deploy { id: [0; 32], name: "Unicode Token 🪙".into(), symbol: "UNI🔣".into(), decimals: 255, minter: vec![0xab, 0xcd] };
    let mut ours2 = vec![];
    for send in [true, false] {
        for d in [&d1, &d2, &d3] {
            ours2.push(AHub { send, chain: "chain".into(), msg: d.clone() }.encode());
        }
    }
    let gold2 = read("deploy_interchain_token_encode_decode")?;
    if gold2.len() != ours2.len() {
        return Err("deploy golden count".into());
    }
    for (i, (g, o)) in gold2.iter().zip(ours2.iter()).enumerate() {
        if *g != hex::encode(o) {
            return Err(format!("independent ABI encoder disagrees with deploy golden vector {}", i));
        }
    }
    Ok(gold.len() + gold2.len())
}
