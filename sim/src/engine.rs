//! Seeded search over schedules: run generation, worker pool, oracle
//! bookkeeping, minimisation, replay files, known findings, evidence.

use crate::rng::{fnv64, splitmix64, Fnv, Rng};
use serde::de::DeserializeOwned;
use serde::{Deserialize, Serialize};
use serde_json::{json, Value};
use std::collections::{BTreeMap, BTreeSet, HashSet};
use std::fmt::Debug;
use std::hash::Hasher;
use std::sync::atomic::{AtomicBool, AtomicUsize, Ordering};
use std::sync::Mutex;
use std::time::Instant;

pub type Prop = &'static str;

pub const VERIF_DIR: &str = "/verif";

// ------------------------------------------------------------------ known findings

#[derive(Clone, Debug, Deserialize, Serialize)]
pub struct KnownEntry {
    pub property: String,
    pub class: String,
    #[serde(default)]
    pub site: String,
    pub fails: String,
}

#[derive(Clone, Debug, Default, Deserialize, Serialize)]
pub struct Known {
    #[serde(default)]
    pub known: Vec<KnownEntry>,
    #[serde(default)]
    pub fixed: Vec<String>,
}

impl Known {
    pub fn load() -> Known {
        let p = format!("{}/known_findings.json", VERIF_DIR);
        match std::fs::read_to_string(&p) {
            Ok(s) => serde_json::from_str(&s).unwrap_or_else(|e| {
                eprintln!("harness error: cannot parse {}: {}", p, e);
                std::process::exit(2)
            }),
            Err(_) => Known::default(),
        }
    }
    pub fn find(&self, prop: &str, class: &str) -> Option<&KnownEntry> {
        self.known
            .iter()
            .find(|k| k.property == prop && k.class == class)
    }
}

// ------------------------------------------------------------------ per-run context

#[derive(Clone, Debug, Serialize, Deserialize, PartialEq, Eq)]
pub struct Violation {
    pub property: String,
    pub class: String,
    pub step: usize,
    pub detail: String,
}

#[derive(Clone, Copy, PartialEq, Eq, Debug)]
pub enum Verdict {
    Pass,
    /// expectation failed, matches a listed known finding: the model must adopt
    /// the implementation's outcome for this step and go on
    Adopt,
    /// expectation failed: the run ends here
    Stop,
}

pub struct Ctx<'a> {
    pub focus: Prop,
    pub known: &'a Known,
    pub step: usize,
    pub violation: Option<Violation>,
    pub truncated_by: Option<String>,
    pub known_seen: BTreeMap<(String, String), String>,
    pub trace: Vec<u64>,
    pub states: Vec<u64>,
    pub transitions: Vec<u64>,
    pub counters: BTreeMap<String, u64>,
    pub harness_error: Option<String>,
    pub log: Option<Vec<String>>,
    pub sim_seconds: u64,
    pub sim_ledgers: u64,
    pub steps_done: u64,
    step_hasher: Fnv,
}

impl<'a> Ctx<'a> {
    pub fn new(focus: Prop, known: &'a Known, want_log: bool) -> Ctx<'a> {
        Ctx {
            focus,
            known,
            step: 0,
            violation: None,
            truncated_by: None,
            known_seen: BTreeMap::new(),
            trace: vec![],
            states: vec![],
            transitions: vec![],
            counters: BTreeMap::new(),
            harness_error: None,
            log: if want_log { Some(vec![]) } else { None },
            sim_seconds: 0,
            sim_ledgers: 0,
            steps_done: 0,
            step_hasher: Fnv::new(),
        }
    }

    pub fn stopped(&self) -> bool {
        self.violation.is_some() || self.truncated_by.is_some() || self.harness_error.is_some()
    }

    pub fn count(&mut self, key: &str) {
        *self.counters.entry(key.to_string()).or_insert(0) += 1;
    }
    pub fn count_n(&mut self, key: &str, n: u64) {
        *self.counters.entry(key.to_string()).or_insert(0) += n;
    }

    pub fn note(&mut self, f: impl FnOnce() -> String) {
        if let Some(l) = self.log.as_mut() {
            let s = f();
            l.push(format!("[{}] {}", self.step, s));
        }
    }

    /// contribute to this step's trace hash (operation, outcome class, model
    /// state, ledger digest, ...)
    pub fn trace_u64(&mut self, v: u64) {
        self.step_hasher.write(&v.to_le_bytes());
    }
    pub fn trace_str(&mut self, s: &str) {
        self.step_hasher.write(s.as_bytes());
    }
    pub fn end_step(&mut self) {
        let h = self.step_hasher.done();
        self.trace.push(h);
        self.step_hasher = Fnv::new();
        self.step_hasher.write(&h.to_le_bytes());
        self.steps_done += 1;
    }

    /// record that an operation relevant to `props` was judged in abstract
    /// model state `state` with the given kind and expectation
    pub fn judged(&mut self, props: &[Prop], state: u64, kind: &str, outcome: &str) {
        if props.contains(&self.focus) {
            let mut h = Fnv::new();
            h.write(&state.to_le_bytes());
            h.write(kind.as_bytes());
            let s = h.done();
            self.states.push(s);
            h.write(outcome.as_bytes());
            self.transitions.push(h.done());
            self.count("judged");
        }
    }

    /// The single place where an expectation is evaluated.  `props` are the
    /// properties this expectation witnesses.
    pub fn expect(
        &mut self,
        cond: bool,
        props: &[Prop],
        class: &str,
        detail: impl FnOnce() -> String,
    ) -> Verdict {
        if cond {
            return Verdict::Pass;
        }
        if self.stopped() {
            return Verdict::Stop;
        }
        // a listed known finding of any property: adopt and continue
        for p in props {
            if let Some(k) = self.known.find(p, class) {
                self.known_seen
                    .insert((p.to_string(), class.to_string()), k.fails.clone());
                self.count(&format!("known_finding.{}.{}", p, class));
                return Verdict::Adopt;
            }
        }
        let d = detail();
        self.note(|| format!("EXPECTATION FAILED {:?} {}: {}", props, class, d));
        if props.contains(&self.focus) {
            self.violation = Some(Violation {
                property: self.focus.to_string(),
                class: class.to_string(),
                step: self.step,
                detail: d,
            });
        } else {
            self.truncated_by = Some(format!("{}:{}", props.first().unwrap_or(&"?"), class));
        }
        Verdict::Stop
    }

    /// convenience: true = go on
    pub fn check(
        &mut self,
        cond: bool,
        props: &[Prop],
        class: &str,
        detail: impl FnOnce() -> String,
    ) -> bool {
        self.expect(cond, props, class, detail) == Verdict::Pass
    }

    /// A check whose failure the model can outlive (it knows the canonical reading and keeps to it):
    /// a violation when the focus property is among `props`, otherwise the run goes on and the failed
    /// expectation is only counted.  true = go on.
    pub fn check_for_focus_only(&mut self, cond: bool, props: &[Prop], class: &str, detail: impl FnOnce() -> String) -> bool {
        if cond || props.contains(&self.focus) || props.iter().any(|p| self.known.find(p, class).is_some()) {
            return self.check(cond, props, class, detail);
        }
        self.count(&format!("sibling_expectation_failed_model_continues.{}", class));
        true
    }

    pub fn harness(&mut self, msg: String) {
        if self.harness_error.is_none() {
            self.harness_error = Some(format!("step {}: {}", self.step, msg));
        }
    }
}

// ------------------------------------------------------------------ world interface

#[derive(Clone, Copy, Debug, PartialEq, Eq)]
pub struct GenParams {
    pub focus: Prop,
    /// false = the fault-free configuration (run separately, so relaxations
    /// made for faults can hide no ordinary bug)
    pub faults: bool,
    pub thorough: bool,
}

pub trait World {
    const NAME: &'static str;
    type Cfg: Serialize + DeserializeOwned + Clone + Debug + Send;
    type Op: Serialize + DeserializeOwned + Clone + Debug + Send;
    fn generate(rng: &mut Rng, p: GenParams) -> (Self::Cfg, Vec<Self::Op>);
    fn execute(cfg: &Self::Cfg, ops: &[Self::Op], ctx: &mut Ctx);
    /// strictly simpler variants of one operation, most aggressive first
    fn simplify(_op: &Self::Op) -> Vec<Self::Op> {
        vec![]
    }
    fn components() -> Value;
}

// ------------------------------------------------------------------ replay files

#[derive(Serialize, Deserialize, Debug, Clone)]
pub struct ReplayFile {
    pub property: String,
    pub world: String,
    pub seed: u64,
    pub run_index: u64,
    pub run_seed: u64,
    pub cfg: Value,
    pub ops: Value,
    pub expect: Violation,
    pub trace: Vec<String>,
    pub original_ops: usize,
    pub minimisation_reexecutions: usize,
    pub log: Vec<String>,
}

fn leak_prop(s: &str) -> Prop {
    for p in ALL_PROPS {
        if *p == s {
            return p;
        }
    }
    Box::leak(s.to_string().into_boxed_str())
}

pub const ALL_PROPS: &[&str] = &[
    "C01", "C02", "C03", "C04", "C05", "C06", "C07", "C08", "C09", "C10", "C11", "C12", "C13",
    "C14", "C15", "C16", "C17", "C18",
];

pub fn exec_once<W: World>(
    cfg: &W::Cfg,
    ops: &[W::Op],
    focus: Prop,
    known: &Known,
    want_log: bool,
) -> CtxOut {
    let mut ctx = Ctx::new(focus, known, want_log);
    let r = std::panic::catch_unwind(std::panic::AssertUnwindSafe(|| {
        W::execute(cfg, ops, &mut ctx);
    }));
    if let Err(p) = r {
        let text = if let Some(s) = p.downcast_ref::<String>() {
            s.clone()
        } else if let Some(s) = p.downcast_ref::<&str>() {
            s.to_string()
        } else {
            "panic".to_string()
        };
        ctx.harness(format!("harness panic: {}", text));
    }
    CtxOut {
        violation: ctx.violation,
        truncated_by: ctx.truncated_by,
        known_seen: ctx.known_seen,
        trace: ctx.trace,
        states: ctx.states,
        transitions: ctx.transitions,
        counters: ctx.counters,
        harness_error: ctx.harness_error,
        log: ctx.log.unwrap_or_default(),
        sim_seconds: ctx.sim_seconds,
        sim_ledgers: ctx.sim_ledgers,
        steps_done: ctx.steps_done,
    }
}

pub struct CtxOut {
    pub violation: Option<Violation>,
    pub truncated_by: Option<String>,
    pub known_seen: BTreeMap<(String, String), String>,
    pub trace: Vec<u64>,
    pub states: Vec<u64>,
    pub transitions: Vec<u64>,
    pub counters: BTreeMap<String, u64>,
    pub harness_error: Option<String>,
    pub log: Vec<String>,
    pub sim_seconds: u64,
    pub sim_ledgers: u64,
    pub steps_done: u64,
}

pub fn replay<W: World>(rf: &ReplayFile, known: &Known) -> i32 {
    let cfg: W::Cfg = match serde_json::from_value(rf.cfg.clone()) {
        Ok(c) => c,
        Err(e) => {
            eprintln!("harness error: replay cfg does not parse: {}", e);
            return 2;
        }
    };
    let ops: Vec<W::Op> = match serde_json::from_value(rf.ops.clone()) {
        Ok(c) => c,
        Err(e) => {
            eprintln!("harness error: replay ops do not parse: {}", e);
            return 2;
        }
    };
    let focus = leak_prop(&rf.property);
    let out = exec_once::<W>(&cfg, &ops, focus, known, true);
    for l in &out.log {
        println!("{}", l);
    }
    if let Some(h) = out.harness_error {
        eprintln!("harness error during replay: {}", h);
        return 2;
    }
    let trace: Vec<String> = out.trace.iter().map(|t| format!("{:016x}", t)).collect();
    match out.violation {
        Some(v) if v.class == rf.expect.class && v.step == rf.expect.step => {
            if trace != rf.trace {
                eprintln!(
                    "replay mismatch: same violation but the step trace differs (recorded {} steps, now {})",
                    rf.trace.len(),
                    trace.len()
                );
                return 2;
            }
            println!(
                "reproduced: property={} class={} step={} detail={}",
                v.property, v.class, v.step, v.detail
            );
            1
        }
        Some(v) => {
            eprintln!(
                "replay mismatch: expected class={} step={}, got class={} step={} ({})",
                rf.expect.class, rf.expect.step, v.class, v.step, v.detail
            );
            2
        }
        None => {
            eprintln!(
                "replay mismatch: recorded violation class={} step={} did not occur (the tree under test has changed?)",
                rf.expect.class, rf.expect.step
            );
            2
        }
    }
}

// ------------------------------------------------------------------ minimisation

fn same_class(out: &CtxOut, class: &str) -> bool {
    out.harness_error.is_none()
        && out
            .violation
            .as_ref()
            .map(|v| v.class == class)
            .unwrap_or(false)
}

pub fn minimise<W: World>(
    cfg: &W::Cfg,
    ops: Vec<W::Op>,
    focus: Prop,
    known: &Known,
    v: &Violation,
) -> (Vec<W::Op>, usize) {
    let mut budget = 400usize;
    let mut used = 0usize;
    let mut cur: Vec<W::Op> = ops;
    if v.step + 1 < cur.len() {
        let cand: Vec<W::Op> = cur[..v.step + 1].to_vec();
        used += 1;
        budget -= 1;
        if same_class(&exec_once::<W>(cfg, &cand, focus, known, false), &v.class) {
            cur = cand;
        }
    }
    // ddmin: remove chunks
    let mut n = 2usize;
    while cur.len() >= 1 && budget > 0 {
        let len = cur.len();
        let chunk = (len + n - 1) / n;
        let mut reduced = false;
        let mut start = 0;
        while start < len && budget > 0 {
            let end = (start + chunk).min(len);
            let mut cand = Vec::with_capacity(len - (end - start));
            cand.extend_from_slice(&cur[..start]);
            cand.extend_from_slice(&cur[end..]);
            used += 1;
            budget -= 1;
            if same_class(&exec_once::<W>(cfg, &cand, focus, known, false), &v.class) {
                cur = cand;
                reduced = true;
                break;
            }
            start = end;
        }
        if reduced {
            n = (n - 1).max(2);
            if cur.is_empty() {
                break;
            }
        } else {
            if chunk <= 1 {
                break;
            }
            n = (n * 2).min(len);
        }
    }
    // per-operation simplification
    let mut i = 0;
    while i < cur.len() && budget > 0 {
        let mut improved = false;
        for s in W::simplify(&cur[i]) {
            if budget == 0 {
                break;
            }
            let mut cand = cur.clone();
            cand[i] = s;
            used += 1;
            budget -= 1;
            if same_class(&exec_once::<W>(cfg, &cand, focus, known, false), &v.class) {
                cur = cand;
                improved = true;
                break;
            }
        }
        if !improved {
            i += 1;
        }
    }
    (cur, used)
}

// ------------------------------------------------------------------ the check driver

pub struct Agg {
    pub property: String,
    pub tier: String,
    pub seed: u64,
    pub runs: u64,
    pub steps: u64,
    pub sim_seconds: u64,
    pub sim_ledgers: u64,
    pub states: HashSet<u64>,
    pub transitions: HashSet<u64>,
    pub counters: BTreeMap<String, u64>,
    pub known_seen: BTreeMap<(String, String), String>,
    pub truncated: BTreeMap<String, u64>,
    pub violations: Vec<(String, String)>, // (class, replay path)
    pub harness_errors: Vec<String>,
    pub samples: Vec<Value>,
    pub worlds: Vec<Value>,
    pub faultfree_runs: u64,
    pub replayed_for_determinism: u64,
    pub capped: bool,
}

impl Agg {
    pub fn new(property: &str, tier: &str, seed: u64) -> Agg {
        Agg {
            property: property.to_string(),
            tier: tier.to_string(),
            seed,
            runs: 0,
            steps: 0,
            sim_seconds: 0,
            sim_ledgers: 0,
            states: HashSet::new(),
            transitions: HashSet::new(),
            counters: BTreeMap::new(),
            known_seen: BTreeMap::new(),
            truncated: BTreeMap::new(),
            violations: vec![],
            harness_errors: vec![],
            samples: vec![],
            worlds: vec![],
            faultfree_runs: 0,
            replayed_for_determinism: 0,
            capped: false,
        }
    }
}

struct RunSummary<W: World> {
    idx: u64,
    run_seed: u64,
    out: CtxOut,
    keep: Option<(W::Cfg, Vec<W::Op>)>,
}

pub fn run_seed_for(seed: u64, prop: &str, world: &str, idx: u64) -> u64 {
    let base = splitmix64(seed ^ fnv64(format!("{}|{}", prop, world).as_bytes()));
    splitmix64(base.wrapping_add(idx))
}

pub fn gen_params(prop: Prop, run_seed: u64, thorough: bool) -> GenParams {
    GenParams {
        focus: prop,
        // every fifth run is the fault-free configuration
        faults: run_seed % 5 != 0,
        thorough,
    }
}

pub fn run_world<W: World>(
    agg: &mut Agg,
    prop: Prop,
    runs: u64,
    thorough: bool,
    known: &Known,
    wall_cap_s: u64,
) {
    let threads = std::env::var("VERIF_THREADS")
        .ok()
        .and_then(|s| s.parse::<usize>().ok())
        .unwrap_or_else(|| {
            std::thread::available_parallelism()
                .map(|n| n.get())
                .unwrap_or(4)
                .min(16)
        })
        .max(1);
    let next = AtomicUsize::new(0);
    let stop = AtomicBool::new(false);
    // Sensitivity sweeps over hundreds of mutants only need "is it caught": stop at the first violation.
    let fast_fail = std::env::var("AXSIM_FAST_FAIL").is_ok();
    let show_truncated = std::env::var("AXSIM_SHOW_TRUNCATED").is_ok();
    let start = Instant::now();
    let seed = agg.seed;
    let results: Mutex<Vec<RunSummary<W>>> = Mutex::new(Vec::new());
    let states: Mutex<HashSet<u64>> = Mutex::new(HashSet::new());
    let transitions: Mutex<HashSet<u64>> = Mutex::new(HashSet::new());
    let det_fail: Mutex<Option<String>> = Mutex::new(None);
    let det_count = AtomicUsize::new(0);

    std::thread::scope(|sc| {
        for _ in 0..threads {
            sc.spawn(|| {
                let mut local: Vec<RunSummary<W>> = vec![];
                let mut lstates: HashSet<u64> = HashSet::new();
                let mut ltrans: HashSet<u64> = HashSet::new();
                loop {
                    if stop.load(Ordering::Relaxed) {
                        break;
                    }
                    let idx = next.fetch_add(1, Ordering::Relaxed) as u64;
                    if idx >= runs {
                        break;
                    }
                    if wall_cap_s > 0 && start.elapsed().as_secs() >= wall_cap_s {
                        stop.store(true, Ordering::Relaxed);
                        break;
                    }
                    let run_seed = run_seed_for(seed, prop, W::NAME, idx);
                    let mut rng = Rng::new(run_seed);
                    let gp = gen_params(prop, run_seed, thorough);
                    let generated = std::panic::catch_unwind(std::panic::AssertUnwindSafe(|| W::generate(&mut rng, gp)));
                    let Ok((cfg, ops)) = generated else {
                        *det_fail.lock().unwrap() = Some(format!("the generator panicked for run {} (seed {})", idx, run_seed));
                        continue;
                    };
                    let want_log = idx < 3;
                    let mut out = exec_once::<W>(&cfg, &ops, prop, known, want_log);
                    // in-process determinism self-check on 1 % of the runs
                    if idx % 100 == 7 {
                        let again = exec_once::<W>(&cfg, &ops, prop, known, false);
                        det_count.fetch_add(1, Ordering::Relaxed);
                        if again.trace != out.trace {
                            *det_fail.lock().unwrap() = Some(format!(
                                "run {} (seed {}) produced two different traces",
                                idx, run_seed
                            ));
                        }
                    }
                    for s in out.states.drain(..) {
                        lstates.insert(s);
                    }
                    for s in out.transitions.drain(..) {
                        ltrans.insert(s);
                    }
                    let interesting =
                        out.violation.is_some() || out.harness_error.is_some() || idx < 3 || (show_truncated && out.truncated_by.is_some());
                    if fast_fail && out.violation.is_some() {
                        stop.store(true, Ordering::Relaxed);
                    }
                    local.push(RunSummary {
                        idx,
                        run_seed,
                        out,
                        keep: if interesting { Some((cfg, ops)) } else { None },
                    });
                }
                results.lock().unwrap().extend(local);
                states.lock().unwrap().extend(lstates);
                transitions.lock().unwrap().extend(ltrans);
            });
        }
    });

    if stop.load(Ordering::Relaxed) {
        agg.capped = true;
    }
    let mut results = results.into_inner().unwrap();
    results.sort_by_key(|r| r.idx);
    agg.states.extend(states.into_inner().unwrap());
    agg.transitions.extend(transitions.into_inner().unwrap());
    agg.replayed_for_determinism += det_count.load(Ordering::Relaxed) as u64;
    if let Some(d) = det_fail.into_inner().unwrap() {
        agg.harness_errors
            .push(format!("self-check failed: {}", d));
    }

    let mut world_runs = 0u64;
    let mut seen_classes: BTreeSet<String> = BTreeSet::new();
    for r in results {
        world_runs += 1;
        agg.runs += 1;
        agg.steps += r.out.steps_done;
        agg.sim_seconds = agg.sim_seconds.saturating_add(r.out.sim_seconds);
        agg.sim_ledgers += r.out.sim_ledgers;
        if r.run_seed % 5 == 0 {
            agg.faultfree_runs += 1;
        }
        for (k, v) in &r.out.counters {
            *agg.counters.entry(k.clone()).or_insert(0) += v;
        }
        for (k, v) in &r.out.known_seen {
            agg.known_seen.insert(k.clone(), v.clone());
        }
        if let Some(t) = &r.out.truncated_by {
            *agg.truncated.entry(t.clone()).or_insert(0) += 1;
            // AXSIM_SHOW_TRUNCATED=1: name the runs, so that a sibling's failed expectation seen
            // in a long batch can be re-run under that sibling's own focus
            if show_truncated {
                eprintln!("truncated: world {} run {} seed {} by {}", W::NAME, r.idx, r.run_seed, t);
                let sib = t.split(':').next().and_then(|p| ALL_PROPS.iter().find(|q| **q == p).copied());
                if let (Some(sib), Some((cfg, ops))) = (sib, r.keep.as_ref()) {
                    let again = exec_once::<W>(cfg, ops, sib, known, false);
                    if let Some(v) = &again.violation {
                        let (min_ops, used) = minimise::<W>(cfg, ops.clone(), sib, known, v);
                        let fin = exec_once::<W>(cfg, &min_ops, sib, known, true);
                        if let Some(fv) = fin.violation.clone() {
                            let rf = ReplayFile {
                                property: sib.to_string(),
                                world: W::NAME.to_string(),
                                seed,
                                run_index: r.idx,
                                run_seed: r.run_seed,
                                cfg: serde_json::to_value(cfg).unwrap(),
                                ops: serde_json::to_value(&min_ops).unwrap(),
                                expect: fv.clone(),
                                trace: fin.trace.iter().map(|t| format!("{:016x}", t)).collect(),
                                original_ops: ops.len(),
                                minimisation_reexecutions: used,
                                log: fin.log.clone(),
                            };
                            let dir = std::env::var("AXSIM_REPLAY_DIR").unwrap_or_else(|_| format!("{}/replays", VERIF_DIR));
                            let _ = std::fs::create_dir_all(&dir);
                            let path = format!("{}/sibling-{}-{}-{}.json", dir, sib, W::NAME, r.run_seed);
                            std::fs::write(&path, serde_json::to_string_pretty(&rf).unwrap()).unwrap();
                            eprintln!("  under focus {}: class={} steps {}->{} replay={} detail: {}", sib, fv.class, ops.len(), min_ops.len(), path, fv.detail);
                        }
                    } else {
                        eprintln!("  under focus {} the run shows no violation", sib);
                    }
                }
            }
        }
        if let Some(h) = &r.out.harness_error {
            if agg.harness_errors.len() < 5 {
                agg.harness_errors.push(format!(
                    "world {} run {} (seed {}): {}",
                    W::NAME,
                    r.idx,
                    r.run_seed,
                    h
                ));
            }
        }
        if r.idx < 3 {
            if let Some((cfg, ops)) = &r.keep {
                if agg.samples.len() < 4 {
                    agg.samples.push(json!({
                        "world": W::NAME,
                        "run_index": r.idx,
                        "run_seed": r.run_seed,
                        "cfg": serde_json::to_value(cfg).unwrap(),
                        "ops": serde_json::to_value(ops).unwrap(),
                        "log_head": r.out.log.iter().take(60).collect::<Vec<_>>(),
                    }));
                }
            }
        }
        if let Some(v) = &r.out.violation {
            if r.out.harness_error.is_some() {
                continue;
            }
            if seen_classes.contains(&v.class) || seen_classes.len() >= if fast_fail { 1 } else { 3 } {
                // one minimised replay per class is enough
                agg.violations
                    .push((v.class.clone(), String::from("(same class as above)")));
                continue;
            }
            seen_classes.insert(v.class.clone());
            let (cfg, ops) = r.keep.as_ref().unwrap();
            let original = ops.len();
            let (min_ops, used) = minimise::<W>(cfg, ops.clone(), prop, known, v);
            let fin = exec_once::<W>(cfg, &min_ops, prop, known, true);
            let fv = match fin.violation.clone() {
                Some(fv) => fv,
                None => {
                    agg.harness_errors.push(format!(
                        "minimised schedule of run {} lost the violation",
                        r.idx
                    ));
                    continue;
                }
            };
            let rf = ReplayFile {
                property: prop.to_string(),
                world: W::NAME.to_string(),
                seed,
                run_index: r.idx,
                run_seed: r.run_seed,
                cfg: serde_json::to_value(cfg).unwrap(),
                ops: serde_json::to_value(&min_ops).unwrap(),
                expect: fv.clone(),
                trace: fin.trace.iter().map(|t| format!("{:016x}", t)).collect(),
                original_ops: original,
                minimisation_reexecutions: used,
                log: fin.log.clone(),
            };
            let dir = std::env::var("AXSIM_REPLAY_DIR").unwrap_or_else(|_| format!("{}/replays", VERIF_DIR));
            let _ = std::fs::create_dir_all(&dir);
            let cls: String = fv
                .class
                .chars()
                .map(|c| if c.is_ascii_alphanumeric() { c } else { '_' })
                .collect();
            let path = format!("{}/{}-{}-{}-{}.json", dir, prop, W::NAME, r.run_seed, cls);
            std::fs::write(&path, serde_json::to_string_pretty(&rf).unwrap()).unwrap();
            println!("VIOLATION property={} replay={}", prop, path);
            println!(
                "  class={} world={} run={} seed={} steps {}->{} detail: {}",
                fv.class,
                W::NAME,
                r.idx,
                r.run_seed,
                original,
                min_ops.len(),
                fv.detail
            );
            agg.violations.push((fv.class.clone(), path));
        }
    }
    agg.worlds.push(json!({
        "world": W::NAME,
        "runs": world_runs,
        "components": W::components(),
    }));
}

pub fn finish(agg: &Agg, wall_s: f64, rule: &str, assumptions: Vec<String>) -> i32 {
    for ((p, c), fails) in &agg.known_seen {
        if p == &agg.property {
            println!("KNOWN-FINDING: property={} class={} {}", p, c, fails);
        }
    }
    let faults: BTreeMap<&String, &u64> = agg
        .counters
        .iter()
        .filter(|(k, _)| k.starts_with('F'))
        .collect();
    let probes: BTreeMap<&String, &u64> = agg
        .counters
        .iter()
        .filter(|(k, _)| k.starts_with("probe."))
        .collect();
    let outcomes: BTreeMap<&String, &u64> = agg
        .counters
        .iter()
        .filter(|(k, _)| k.starts_with("op."))
        .collect();
    let other: BTreeMap<&String, &u64> = agg
        .counters
        .iter()
        .filter(|(k, _)| {
            !k.starts_with('F') && !k.starts_with("probe.") && !k.starts_with("op.")
        })
        .collect();
    // entry point x principal matrix (C06 / C07): attempts per cell, from the F7 counters
    let mut auth_matrix: BTreeMap<String, BTreeMap<String, u64>> = BTreeMap::new();
    for (k, v) in agg.counters.iter().filter(|(k, _)| k.starts_with("F7.")) {
        let parts: Vec<&str> = k.splitn(3, '.').collect();
        if parts.len() == 3 {
            *auth_matrix.entry(parts[1].to_string()).or_default().entry(parts[2].to_string()).or_insert(0) += v;
        }
    }
    let runs_per_hour = if wall_s > 0.0 {
        (agg.runs as f64 / wall_s * 3600.0) as u64
    } else {
        0
    };
    let ev = json!({
        "property_id": agg.property,
        "tier": agg.tier,
        "seed": agg.seed,
        "level": "exploration",
        "coverage": {
            "evaluations": agg.runs,
            "distinct_nontrivial": agg.states.len(),
            "rule": rule,
            "samples": agg.samples,
            "steps": agg.steps,
            "distinct_transitions": agg.transitions.len(),
            "runs_per_hour": runs_per_hour,
            "seeds_per_hour": runs_per_hour,
            "simulated_seconds": agg.sim_seconds,
            "simulated_ledgers": agg.sim_ledgers,
            "fault_free_runs": agg.faultfree_runs,
            "faults_fired": faults,
            "auth_matrix_attempts_by_wrong_principal": auth_matrix,
            "probes": probes,
            "outcomes": outcomes,
            "counters": other,
            "worlds": agg.worlds,
            "known_findings_seen": agg.known_seen.iter().map(|((p,c),f)| json!({"property":p,"class":c,"fails":f})).collect::<Vec<_>>(),
            "truncated_by": agg.truncated,
            "runs_replayed_for_determinism": agg.replayed_for_determinism,
            "stopped_by_wall_clock_cap": agg.capped,
            "exhaustive": false,
        },
        "assumptions": assumptions,
        "wall_s": wall_s,
        "violations": agg.violations.len(),
    });
    // The sensitivity tools (mutants, seeded changes) patch /repo on purpose; they point this
    // elsewhere so that the committed evidence only ever comes from the unpatched tree.
    let dir = std::env::var("AXSIM_EVIDENCE_DIR").unwrap_or_else(|_| format!("{}/evidence", VERIF_DIR));
    let _ = std::fs::create_dir_all(&dir);
    let path = format!("{}/{}.json", dir, agg.property);
    if let Err(e) = std::fs::write(&path, serde_json::to_string_pretty(&ev).unwrap()) {
        eprintln!("harness error: cannot write {}: {}", path, e);
        return 2;
    }
    for (k, v) in &probes {
        if **v == 0 {
            println!("coverage warning: probe {} never fired", k);
        }
    }
    println!(
        "{} {}: {} runs, {} steps, {} distinct judged states, {} transitions, {:.1}s, {} violation(s), truncated {:?}",
        agg.property,
        agg.tier,
        agg.runs,
        agg.steps,
        agg.states.len(),
        agg.transitions.len(),
        wall_s,
        agg.violations.len(),
        agg.truncated
    );
    if !agg.truncated.is_empty() {
        println!(
            "note: {} run(s) were cut short by failed expectations of other properties {:?}; those properties' own checks report them",
            agg.truncated.values().sum::<u64>(),
            agg.truncated.keys().collect::<Vec<_>>()
        );
    }
    for h in &agg.harness_errors {
        eprintln!("harness error: {}", h);
    }
    // a violation with a replay file that reproduces outranks trouble the harness had in other runs
    if !agg.violations.is_empty() {
        return 1;
    }
    if !agg.harness_errors.is_empty() {
        return 2;
    }
    0
}

/// Determinism self-test support: per-run digest of the whole step trace,
/// computed with the configured number of worker threads.
pub fn dump_traces<W: World>(prop: Prop, seed: u64, runs: u64, known: &Known) -> Vec<(u64, u64, u64)> {
    let threads = std::env::var("VERIF_THREADS").ok().and_then(|s| s.parse::<usize>().ok()).unwrap_or(16).max(1);
    let next = AtomicUsize::new(0);
    let out: Mutex<Vec<(u64, u64, u64)>> = Mutex::new(vec![]);
    std::thread::scope(|sc| {
        for _ in 0..threads {
            sc.spawn(|| loop {
                let idx = next.fetch_add(1, Ordering::Relaxed) as u64;
                if idx >= runs {
                    break;
                }
                let run_seed = run_seed_for(seed, prop, W::NAME, idx);
                let mut rng = Rng::new(run_seed);
                let (cfg, ops) = W::generate(&mut rng, gen_params(prop, run_seed, false));
                let o = exec_once::<W>(&cfg, &ops, prop, known, false);
                let mut h = Fnv::new();
                for t in &o.trace {
                    h.write(&t.to_le_bytes());
                }
                h.write(format!("{:?}|{:?}|{:?}", o.violation, o.truncated_by, o.harness_error).as_bytes());
                out.lock().unwrap().push((idx, run_seed, h.done()));
            });
        }
    });
    let mut v = out.into_inner().unwrap();
    v.sort();
    v
}
