//! Harness-side contracts (stubs standing in for third parties).  Each lives
//! in its own module because `#[contractimpl]` generates a hidden module per
//! function name.

pub mod mini_app {
    //! Minimal destination application using the executable interface's own
    //! validation helper, trapping on error — the pattern the interface
    //! documents.
    use axelar_gateway::executable::AxelarExecutableInterface;
    use soroban_sdk::{
        contract, contractimpl, contracttype, panic_with_error, Address, Bytes, Env, String,
        Symbol,
    };

    #[contracttype]
    #[derive(Clone)]
    pub enum Key {
        Gateway,
        Count,
    }

    #[contract]
    pub struct MiniApp;

    #[contractimpl]
    impl MiniApp {
        pub fn __constructor(env: Env, gateway: Address) {
            env.storage().instance().set(&Key::Gateway, &gateway);
            env.storage().instance().set(&Key::Count, &0u32);
        }
        pub fn count(env: Env) -> u32 {
            env.storage().instance().get(&Key::Count).unwrap_or(0)
        }
    }

    #[contractimpl]
    impl AxelarExecutableInterface for MiniApp {
        fn gateway(env: &Env) -> Address {
            env.storage().instance().get(&Key::Gateway).unwrap()
        }
        fn execute(
            env: Env,
            source_chain: String,
            message_id: String,
            source_address: String,
            payload: Bytes,
        ) {
            if let Err(e) =
                Self::validate_message(&env, &source_chain, &message_id, &source_address, &payload)
            {
                panic_with_error!(&env, e);
            }
            let n: u32 = env.storage().instance().get(&Key::Count).unwrap_or(0);
            env.storage().instance().set(&Key::Count, &(n + 1));
            env.events().publish(
                (
                    Symbol::new(&env, "mini_executed"),
                    source_chain,
                    message_id,
                    source_address,
                ),
                (payload,),
            );
        }
    }
}

pub mod probe_target {
    //! Target for the operators contract: records every call, returns a value
    //! derived from its arguments, traps on demand, and has one entry point
    //! that requires the *calling contract's* authorisation.
    use soroban_sdk::{contract, contractimpl, contracttype, Address, Env, Val, Vec};

    #[contracttype]
    #[derive(Clone)]
    pub enum Key {
        Log,
    }

    #[contract]
    pub struct ProbeTarget;

    #[contractimpl]
    impl ProbeTarget {
        pub fn __constructor(env: Env) {
            env.storage()
                .instance()
                .set(&Key::Log, &Vec::<Vec<Val>>::new(&env));
        }
        fn push(env: &Env, entry: Vec<Val>) {
            let mut log: Vec<Vec<Val>> = env.storage().instance().get(&Key::Log).unwrap();
            log.push_back(entry);
            env.storage().instance().set(&Key::Log, &log);
        }
        pub fn log_len(env: Env) -> u32 {
            let log: Vec<Vec<Val>> = env.storage().instance().get(&Key::Log).unwrap();
            log.len()
        }
        pub fn log_at(env: Env, i: u32) -> Vec<Val> {
            let log: Vec<Vec<Val>> = env.storage().instance().get(&Key::Log).unwrap();
            log.get(i).unwrap()
        }
        /// records (1, a, b, c) and returns `ret` unchanged
        pub fn echo(env: Env, a: Val, b: Val, c: Val, ret: Val) -> Val {
            let mut e = Vec::<Val>::new(&env);
            e.push_back(1u32.into());
            e.push_back(a);
            e.push_back(b);
            e.push_back(c);
            Self::push(&env, e);
            ret
        }
        /// records (2, x) and returns x + 1
        pub fn bump(env: Env, x: i128) -> i128 {
            let mut e = Vec::<Val>::new(&env);
            e.push_back(2u32.into());
            e.push_back(soroban_sdk::IntoVal::into_val(&x, &env));
            Self::push(&env, e);
            x + 1
        }
        /// records (3) and returns unit
        pub fn noop(env: Env) {
            let mut e = Vec::<Val>::new(&env);
            e.push_back(3u32.into());
            Self::push(&env, e);
        }
        /// records (4) and then traps
        pub fn fail(env: Env) {
            let mut e = Vec::<Val>::new(&env);
            e.push_back(4u32.into());
            Self::push(&env, e);
            panic!("probe target fails on demand");
        }
        /// records (5, who) after requiring `who`'s authorisation; succeeds when
        /// `who` is the directly calling contract
        pub fn needs_caller_auth(env: Env, who: Address) -> u32 {
            who.require_auth();
            let mut e = Vec::<Val>::new(&env);
            e.push_back(5u32.into());
            e.push_back(who.to_val());
            Self::push(&env, e);
            7
        }
    }
}

pub mod probe_token {
    //! Token with arbitrary metadata (anything the real token's constructor
    //! would refuse) for remote-deployment announcements.
    use soroban_sdk::{contract, contractimpl, contracttype, Address, Bytes, Env, IntoVal, String, Symbol, Val};

    #[contracttype]
    #[derive(Clone)]
    pub enum Key {
        Name,
        Symbol,
        Decimals,
        Bal(Address),
        Blocked(Address),
        Allow(Address, Address),
        /// the token reports its real metadata for this many metadata reads, then empty strings and 256
        FlakyAfter,
        Reads,
        /// the token answers a metadata getter with a value of another type (see `set_weird`)
        Weird,
    }

    #[contract]
    pub struct ProbeToken;

    #[contractimpl]
    impl ProbeToken {
        pub fn __constructor(env: Env, name: String, symbol: String, decimals: u32) {
            env.storage().instance().set(&Key::Name, &name);
            env.storage().instance().set(&Key::Symbol, &symbol);
            env.storage().instance().set(&Key::Decimals, &decimals);
        }
        /// a token may change what it reports about itself
        pub fn set_meta(env: Env, name: String, symbol: String, decimals: u32) {
            env.storage().instance().remove(&Key::FlakyAfter);
            env.storage().instance().remove(&Key::Weird);
            env.storage().instance().set(&Key::Name, &name);
            env.storage().instance().set(&Key::Symbol, &symbol);
            env.storage().instance().set(&Key::Decimals, &decimals);
        }
        /// a token may answer differently from one read to the next (its getters can write storage):
        /// after `after` further metadata reads it reports an empty name, an empty symbol and 256 decimals
        pub fn set_flaky(env: Env, after: u32) {
            env.storage().instance().set(&Key::FlakyAfter, &after);
            env.storage().instance().set(&Key::Reads, &0u32);
        }
        fn lying(env: &Env) -> bool {
            let Some(after) = env.storage().instance().get::<_, u32>(&Key::FlakyAfter) else { return false };
            let reads: u32 = env.storage().instance().get(&Key::Reads).unwrap_or(0) + 1;
            env.storage().instance().set(&Key::Reads, &reads);
            reads > after
        }
        /// a token may answer a getter with a value of an unexpected type: 1 decimals as u64 300,
        /// 2 decimals as i128 7, 3 name as a symbol, 4 symbol as bytes, 5 decimals as void
        pub fn set_weird(env: Env, mode: u32) {
            env.storage().instance().set(&Key::Weird, &mode);
        }
        fn weird(env: &Env) -> u32 {
            env.storage().instance().get(&Key::Weird).unwrap_or(0)
        }
        pub fn name(env: Env) -> Val {
            if Self::weird(&env) == 3 {
                return Symbol::new(&env, "name").into_val(&env);
            }
            if Self::lying(&env) {
                return String::from_str(&env, "").into_val(&env);
            }
            let n: String = env.storage().instance().get(&Key::Name).unwrap();
            n.into_val(&env)
        }
        pub fn symbol(env: Env) -> Val {
            if Self::weird(&env) == 4 {
                return Bytes::from_slice(&env, b"SYM").into_val(&env);
            }
            if Self::lying(&env) {
                return String::from_str(&env, "").into_val(&env);
            }
            let n: String = env.storage().instance().get(&Key::Symbol).unwrap();
            n.into_val(&env)
        }
        pub fn decimals(env: Env) -> Val {
            match Self::weird(&env) {
                1 => return 300u64.into_val(&env),
                2 => return 7i128.into_val(&env),
                5 => return ().into_val(&env),
                _ => {}
            }
            if Self::lying(&env) {
                return 256u32.into_val(&env);
            }
            let d: u32 = env.storage().instance().get(&Key::Decimals).unwrap();
            d.into_val(&env)
        }
        // the rest of the standard token interface, so that a contract consulting allowances meets a conforming token
        pub fn allowance(env: Env, from: Address, spender: Address) -> i128 {
            env.storage().persistent().get(&Key::Allow(from, spender)).unwrap_or(0)
        }
        pub fn approve(env: Env, from: Address, spender: Address, amount: i128, _expiration_ledger: u32) {
            from.require_auth();
            assert!(amount >= 0);
            env.storage().persistent().set(&Key::Allow(from, spender), &amount);
        }
        pub fn transfer_from(env: Env, spender: Address, from: Address, to: Address, amount: i128) {
            spender.require_auth();
            assert!(amount >= 0);
            let a: i128 = env.storage().persistent().get(&Key::Allow(from.clone(), spender.clone())).unwrap_or(0);
            assert!(a >= amount);
            let blocked: bool = env.storage().persistent().get(&Key::Blocked(to.clone())).unwrap_or(false);
            assert!(!blocked, "receiver is blocked by the token");
            let fb: i128 = env.storage().persistent().get(&Key::Bal(from.clone())).unwrap_or(0);
            assert!(fb >= amount);
            env.storage().persistent().set(&Key::Allow(from.clone(), spender), &(a - amount));
            env.storage().persistent().set(&Key::Bal(from), &(fb - amount));
            let tb: i128 = env.storage().persistent().get(&Key::Bal(to.clone())).unwrap_or(0);
            env.storage().persistent().set(&Key::Bal(to), &(tb + amount));
        }
        pub fn balance(env: Env, id: Address) -> i128 {
            env.storage().persistent().get(&Key::Bal(id)).unwrap_or(0)
        }
        pub fn give(env: Env, to: Address, amount: i128) {
            let b: i128 = env
                .storage()
                .persistent()
                .get(&Key::Bal(to.clone()))
                .unwrap_or(0);
            env.storage().persistent().set(&Key::Bal(to), &(b + amount));
        }
        /// the token refuses to credit a blocked address (stands for a frozen trustline,
        /// a deny list, any receiver-dependent failure of a token)
        pub fn set_blocked(env: Env, who: Address, blocked: bool) {
            env.storage().persistent().set(&Key::Blocked(who), &blocked);
        }
        pub fn transfer(env: Env, from: Address, to: Address, amount: i128) {
            from.require_auth();
            assert!(amount >= 0);
            let blocked: bool = env.storage().persistent().get(&Key::Blocked(to.clone())).unwrap_or(false);
            assert!(!blocked, "receiver is blocked by the token");
            let fb: i128 = env
                .storage()
                .persistent()
                .get(&Key::Bal(from.clone()))
                .unwrap_or(0);
            assert!(fb >= amount);
            env.storage()
                .persistent()
                .set(&Key::Bal(from), &(fb - amount));
            let tb: i128 = env
                .storage()
                .persistent()
                .get(&Key::Bal(to.clone()))
                .unwrap_or(0);
            env.storage().persistent().set(&Key::Bal(to), &(tb + amount));
        }
    }
}

pub mod exec_app {
    //! Destination of interchain transfers with data.
    use soroban_sdk::{
        contract, contractimpl, contracttype, Address, Bytes, BytesN, Env, String, Symbol,
    };

    #[contracttype]
    #[derive(Clone)]
    pub enum Key {
        Its,
        Count,
        Trap,
    }

    #[contract]
    pub struct ExecApp;

    #[contractimpl]
    impl ExecApp {
        pub fn __constructor(env: Env, its: Address) {
            env.storage().instance().set(&Key::Its, &its);
            env.storage().instance().set(&Key::Count, &0u32);
        }
        pub fn count(env: Env) -> u32 {
            env.storage().instance().get(&Key::Count).unwrap_or(0)
        }
        pub fn interchain_token_service(env: Env) -> Address {
            env.storage().instance().get(&Key::Its).unwrap()
        }
        pub fn execute_with_interchain_token(
            env: Env,
            source_chain: String,
            message_id: String,
            source_address: Bytes,
            payload: Bytes,
            token_id: BytesN<32>,
            token_address: Address,
            amount: i128,
        ) {
            let its: Address = env.storage().instance().get(&Key::Its).unwrap();
            its.require_auth();
            // a payload starting with 0xff asks the app to trap
            if payload.len() > 0 && payload.get(0) == Some(0xff) {
                panic!("exec app traps on demand");
            }
            let n: u32 = env.storage().instance().get(&Key::Count).unwrap_or(0);
            env.storage().instance().set(&Key::Count, &(n + 1));
            env.events().publish(
                (
                    Symbol::new(&env, "app_executed"),
                    source_chain,
                    message_id,
                    source_address,
                    token_id,
                    token_address,
                    amount,
                ),
                (payload,),
            );
        }
    }
}

pub mod derived_dummy {
    //! A contract built with the tree's own `Ownable`/`Upgradable` derives.
    use axelar_soroban_std::{interfaces, Ownable, Upgradable};
    use soroban_sdk::{contract, contracterror, contractimpl, contracttype, Address, Env};

    #[contracterror]
    #[derive(Copy, Clone, Debug, Eq, PartialEq, PartialOrd, Ord)]
    #[repr(u32)]
    pub enum ContractError {
        MigrationNotAllowed = 1,
    }

    #[contracttype]
    #[derive(Clone)]
    pub enum Key {
        Migrations,
    }

    #[contract]
    #[derive(Ownable, Upgradable)]
    pub struct DerivedDummy;

    #[contractimpl]
    impl DerivedDummy {
        pub fn __constructor(env: Env, owner: Address) {
            interfaces::set_owner(&env, &owner);
        }
        pub fn migrations(env: Env) -> u32 {
            env.storage().instance().get(&Key::Migrations).unwrap_or(0)
        }
    }

    impl DerivedDummy {
        fn run_migration(env: &Env, _migration_data: ()) {
            let n: u32 = env.storage().instance().get(&Key::Migrations).unwrap_or(0);
            env.storage().instance().set(&Key::Migrations, &(n + 1));
        }
    }
}

pub mod owner_setter {
    //! A contract built with the tree's own derives whose migration installs a new owner taken from
    //! its migration data — the one kind of migration for which it matters *when* the shared
    //! `migrate` asks for the owner's authorisation.
    use axelar_soroban_std::{interfaces, Ownable, Upgradable};
    use soroban_sdk::{contract, contracterror, contractimpl, Address, Env};

    #[contracterror]
    #[derive(Copy, Clone, Debug, Eq, PartialEq, PartialOrd, Ord)]
    #[repr(u32)]
    pub enum ContractError {
        MigrationNotAllowed = 1,
    }

    #[contract]
    #[derive(Ownable, Upgradable)]
    #[migratable(with_type = Address)]
    pub struct OwnerSetter;

    #[contractimpl]
    impl OwnerSetter {
        pub fn __constructor(env: Env, owner: Address) {
            interfaces::set_owner(&env, &owner);
        }
    }

    impl OwnerSetter {
        fn run_migration(env: &Env, new_owner: Address) {
            interfaces::set_owner(env, &new_owner);
        }
    }
}

pub mod native_dummy {
    //! The pattern of the repository's upgrader test dummy: owner-gated
    //! `upgrade` that swaps the code and nothing else; version 0.1.0.  Its
    //! upgrade target is the repository's pre-built `dummy.wasm` (0.2.0,
    //! `migrate(String)`).
    use axelar_soroban_std::interfaces;
    use axelar_soroban_std::interfaces::{OwnableInterface, UpgradableInterface};
    use soroban_sdk::{contract, contractimpl, Address, BytesN, Env};

    #[contract]
    pub struct NativeDummy;

    #[contractimpl]
    impl UpgradableInterface for NativeDummy {
        fn version(env: &Env) -> soroban_sdk::String {
            soroban_sdk::String::from_str(env, "0.1.0")
        }
        fn upgrade(env: &Env, new_wasm_hash: BytesN<32>) {
            Self::owner(env).require_auth();
            env.deployer().update_current_contract_wasm(new_wasm_hash);
        }
    }

    #[contractimpl]
    impl OwnableInterface for NativeDummy {
        fn owner(env: &Env) -> Address {
            interfaces::owner(env)
        }
        fn transfer_ownership(env: &Env, new_owner: Address) {
            interfaces::transfer_ownership::<Self>(env, new_owner);
        }
    }

    #[contractimpl]
    impl NativeDummy {
        pub fn __constructor(env: Env, owner: Address) {
            interfaces::set_owner(&env, &owner);
        }
    }
}

pub mod labelled_target {
    //! An upgrade target whose reported version is *state*: `upgrade(hash)` stamps the label
    //! "0.<hash[0]>.0" (and opens its migration step), `migrate(Option<String>)` re-stamps it with
    //! the given label.  No code is swapped.  It exists so that "the target ends at the requested
    //! version" is observable after each of the Upgrader's two steps separately — with the
    //! pre-built wasm targets the version is a constant of the code.
    use soroban_sdk::{contract, contractimpl, contracttype, Address, BytesN, Env, String};

    #[contracttype]
    pub enum Key {
        Owner,
        Label,
        Pending,
    }

    #[contract]
    pub struct LabelledTarget;

    #[contractimpl]
    impl LabelledTarget {
        pub fn __constructor(env: Env, owner: Address) {
            env.storage().instance().set(&Key::Owner, &owner);
            env.storage().instance().set(&Key::Label, &String::from_str(&env, "0.1.0"));
        }
        pub fn owner(env: Env) -> Address {
            env.storage().instance().get(&Key::Owner).unwrap()
        }
        pub fn version(env: Env) -> String {
            env.storage().instance().get(&Key::Label).unwrap()
        }
        pub fn pending(env: Env) -> bool {
            env.storage().instance().has(&Key::Pending)
        }
        pub fn upgrade(env: Env, new_wasm_hash: BytesN<32>) {
            Self::owner(env.clone()).require_auth();
            let b = new_wasm_hash.to_array()[0] % 10;
            let mut label = *b"0.0.0";
            label[2] = b'0' + b;
            env.storage().instance().set(&Key::Label, &String::from_str(&env, core::str::from_utf8(&label).unwrap()));
            env.storage().instance().set(&Key::Pending, &());
        }
        pub fn migrate(env: Env, migration_data: Option<String>) {
            Self::owner(env.clone()).require_auth();
            if !env.storage().instance().has(&Key::Pending) {
                panic!("no upgrade pending");
            }
            env.storage().instance().remove(&Key::Pending);
            if let Some(l) = migration_data {
                env.storage().instance().set(&Key::Label, &l);
            }
        }
    }
}

pub mod mirror_keys {
    //! Mirror of the interfaces' private storage key for the migration window
    //! (same variant name, hence the same ledger key).
    #![allow(non_camel_case_types)]
    use soroban_sdk::contracttype;
    #[contracttype]
    pub enum DataKey {
        Interfaces_Migrating,
    }
}
