//! Independent recipes (oracle side).  Nothing in here calls into the
//! contracts or into the host's `to_xdr`: XDR values are built by hand from
//! `stellar-xdr` types, hashing is the `sha3`/`sha2` crates, signatures are
//! checked with `ed25519-dalek` directly.

use ed25519_dalek::{Signature, Signer, SigningKey, VerifyingKey};
use serde::{Deserialize, Serialize};
use sha3::{Digest, Keccak256};
use soroban_sdk::xdr::{
    ContractIdPreimage, ContractIdPreimageFromAddress, Hash, HashIdPreimage,
    HashIdPreimageContractId, Limits, ScAddress, ScBytes, ScMap, ScMapEntry, ScString, ScSymbol,
    ScVal, ScVec, UInt128Parts, Uint256, WriteXdr,
};

pub fn keccak(data: &[u8]) -> [u8; 32] {
    let mut h = Keccak256::new();
    h.update(data);
    h.finalize().into()
}

pub fn sha256(data: &[u8]) -> [u8; 32] {
    use sha2::Sha256;
    let mut h = Sha256::new();
    h.update(data);
    h.finalize().into()
}

pub mod hex32 {
    use serde::{Deserialize, Deserializer, Serializer};
    pub fn serialize<S: Serializer>(v: &[u8; 32], s: S) -> Result<S::Ok, S::Error> {
        s.serialize_str(&hex::encode(v))
    }
    pub fn deserialize<'de, D: Deserializer<'de>>(d: D) -> Result<[u8; 32], D::Error> {
        let s = String::deserialize(d)?;
        let v = hex::decode(&s).map_err(serde::de::Error::custom)?;
        v.try_into()
            .map_err(|_| serde::de::Error::custom("expected 32 bytes"))
    }
}

pub mod hexvec {
    use serde::{Deserialize, Deserializer, Serializer};
    pub fn serialize<S: Serializer>(v: &Vec<u8>, s: S) -> Result<S::Ok, S::Error> {
        s.serialize_str(&hex::encode(v))
    }
    pub fn deserialize<'de, D: Deserializer<'de>>(d: D) -> Result<Vec<u8>, D::Error> {
        let s = String::deserialize(d)?;
        hex::decode(&s).map_err(serde::de::Error::custom)
    }
}

pub mod dec128 {
    use serde::{Deserialize, Deserializer, Serializer};
    pub fn serialize<S: Serializer>(v: &u128, s: S) -> Result<S::Ok, S::Error> {
        s.serialize_str(&v.to_string())
    }
    pub fn deserialize<'de, D: Deserializer<'de>>(d: D) -> Result<u128, D::Error> {
        let s = String::deserialize(d)?;
        s.parse().map_err(serde::de::Error::custom)
    }
}

pub mod deci128 {
    use serde::{Deserialize, Deserializer, Serializer};
    pub fn serialize<S: Serializer>(v: &i128, s: S) -> Result<S::Ok, S::Error> {
        s.serialize_str(&v.to_string())
    }
    pub fn deserialize<'de, D: Deserializer<'de>>(d: D) -> Result<i128, D::Error> {
        let s = String::deserialize(d)?;
        s.parse().map_err(serde::de::Error::custom)
    }
}

// ---------------------------------------------------------------- XDR builders

pub fn sym(s: &str) -> ScVal {
    ScVal::Symbol(ScSymbol(s.try_into().unwrap()))
}
pub fn sstr(s: &str) -> ScVal {
    ScVal::String(ScString(s.as_bytes().to_vec().try_into().unwrap()))
}
pub fn sbytes(b: &[u8]) -> ScVal {
    ScVal::Bytes(ScBytes(b.to_vec().try_into().unwrap()))
}
pub fn su128(v: u128) -> ScVal {
    ScVal::U128(UInt128Parts {
        hi: (v >> 64) as u64,
        lo: v as u64,
    })
}
pub fn svec(items: Vec<ScVal>) -> ScVal {
    ScVal::Vec(Some(ScVec(items.try_into().unwrap())))
}
/// keys must be given in sorted order
pub fn smap(items: Vec<(&str, ScVal)>) -> ScVal {
    let entries: Vec<ScMapEntry> = items
        .into_iter()
        .map(|(k, v)| ScMapEntry {
            key: sym(k),
            val: v,
        })
        .collect();
    ScVal::Map(Some(ScMap(entries.try_into().unwrap())))
}
pub fn saddr_contract(id: &[u8; 32]) -> ScVal {
    ScVal::Address(ScAddress::Contract(Hash(*id)))
}
pub fn xdr_of(v: &ScVal) -> Vec<u8> {
    v.to_xdr(Limits::none()).unwrap()
}

// ---------------------------------------------------------------- gateway model types

#[derive(Clone, Debug, PartialEq, Eq, Hash, PartialOrd, Ord, Serialize, Deserialize)]
pub struct MSigner {
    #[serde(with = "hex32")]
    pub key: [u8; 32],
    #[serde(with = "dec128")]
    pub weight: u128,
    /// index into the simulator's key pool, if the simulator holds the secret
    pub key_id: Option<u8>,
}

#[derive(Clone, Debug, PartialEq, Eq, Hash, PartialOrd, Ord, Serialize, Deserialize)]
pub struct MSet {
    pub signers: Vec<MSigner>,
    #[serde(with = "dec128")]
    pub threshold: u128,
    #[serde(with = "hex32")]
    pub nonce: [u8; 32],
}

impl MSet {
    pub fn to_scval(&self) -> ScVal {
        let signers = self
            .signers
            .iter()
            .map(|s| smap(vec![("signer", sbytes(&s.key)), ("weight", su128(s.weight))]))
            .collect();
        smap(vec![
            ("nonce", sbytes(&self.nonce)),
            ("signers", svec(signers)),
            ("threshold", su128(self.threshold)),
        ])
    }
    pub fn hash(&self) -> [u8; 32] {
        keccak(&xdr_of(&self.to_scval()))
    }
    pub fn rotation_data_hash(&self) -> [u8; 32] {
        keccak(&xdr_of(&svec(vec![
            svec(vec![sym("RotateSigners")]),
            self.to_scval(),
        ])))
    }
    /// The well-formedness rule of the property statement: non-empty, strictly
    /// increasing keys, non-zero weights, non-zero threshold not exceeding the
    /// overflow-free total weight.  `Err(true)` marks the one shape on which the
    /// statement can be read both ways (first key all-zero, otherwise fine).
    pub fn well_formed(&self) -> Result<(), bool> {
        if self.signers.is_empty() {
            return Err(false);
        }
        let mut total: u128 = 0;
        for (i, s) in self.signers.iter().enumerate() {
            if i > 0 && self.signers[i - 1].key >= s.key {
                return Err(false);
            }
            if s.weight == 0 {
                return Err(false);
            }
            total = match total.checked_add(s.weight) {
                Some(t) => t,
                None => return Err(false),
            };
        }
        if self.threshold == 0 || self.threshold > total {
            return Err(false);
        }
        if self.signers[0].key == [0u8; 32] {
            return Err(true);
        }
        Ok(())
    }
    pub fn total_weight(&self) -> Option<u128> {
        let mut t: u128 = 0;
        for s in &self.signers {
            t = t.checked_add(s.weight)?;
        }
        Some(t)
    }
}

#[derive(Clone, Debug, PartialEq, Eq, Hash, PartialOrd, Ord, Serialize, Deserialize)]
pub struct MMsg {
    pub source_chain: String,
    pub message_id: String,
    pub source_address: String,
    #[serde(with = "hex32")]
    pub contract: [u8; 32],
    #[serde(with = "hex32")]
    pub payload_hash: [u8; 32],
    /// the destination is the ACCOUNT address carrying these 32 bytes, not the contract address
    #[serde(default)]
    pub account: bool,
}

impl MMsg {
    pub fn to_scval(&self) -> ScVal {
        smap(vec![
            ("contract_address", if self.account { ScVal::Address(ScAddress::Account(soroban_sdk::xdr::AccountId(soroban_sdk::xdr::PublicKey::PublicKeyTypeEd25519(soroban_sdk::xdr::Uint256(self.contract))))) } else { saddr_contract(&self.contract) }),
            ("message_id", sstr(&self.message_id)),
            ("payload_hash", sbytes(&self.payload_hash)),
            ("source_address", sstr(&self.source_address)),
            ("source_chain", sstr(&self.source_chain)),
        ])
    }
}

pub fn approve_data_hash(msgs: &[MMsg]) -> [u8; 32] {
    keccak(&xdr_of(&svec(vec![
        svec(vec![sym("ApproveMessages")]),
        svec(msgs.iter().map(|m| m.to_scval()).collect()),
    ])))
}

pub fn signing_digest(domain: &[u8; 32], signers_hash: &[u8; 32], data_hash: &[u8; 32]) -> [u8; 32] {
    let mut buf = Vec::with_capacity(96);
    buf.extend_from_slice(domain);
    buf.extend_from_slice(signers_hash);
    buf.extend_from_slice(data_hash);
    keccak(&buf)
}

// ---------------------------------------------------------------- keys

pub struct KeyPool {
    pub keys: Vec<SigningKey>,
    pub pubs: Vec<[u8; 32]>,
}

impl KeyPool {
    /// Deterministic pool; secret i = keccak("axsim-key" || i).
    pub fn new(n: usize) -> KeyPool {
        let mut keys = vec![];
        let mut pubs = vec![];
        for i in 0..n {
            let mut seed = b"axsim-key".to_vec();
            seed.push(i as u8);
            let sk = SigningKey::from_bytes(&keccak(&seed));
            pubs.push(sk.verifying_key().to_bytes());
            keys.push(sk);
        }
        KeyPool { keys, pubs }
    }
    pub fn sign(&self, key_id: u8, msg: &[u8; 32]) -> [u8; 64] {
        self.keys[key_id as usize % self.keys.len()]
            .sign(msg)
            .to_bytes()
    }
    /// key ids sorted by public key
    pub fn sorted_ids(&self) -> Vec<u8> {
        let mut ids: Vec<u8> = (0..self.keys.len() as u8).collect();
        ids.sort_by_key(|i| self.pubs[*i as usize]);
        ids
    }
}

/// strict Ed25519 verification, as the network performs it
pub fn sig_valid(key: &[u8; 32], msg: &[u8; 32], sig: &[u8; 64]) -> bool {
    let Ok(vk) = VerifyingKey::from_bytes(key) else {
        return false;
    };
    let sig = Signature::from_bytes(sig);
    vk.verify_strict(msg, &sig).is_ok()
}

// ---------------------------------------------------------------- ITS ids

pub const ZERO_ACCOUNT: [u8; 32] = [0u8; 32];

pub fn saddr_zero_account() -> ScVal {
    ScVal::Address(ScAddress::Account(soroban_sdk::xdr::AccountId(
        soroban_sdk::xdr::PublicKey::PublicKeyTypeEd25519(Uint256(ZERO_ACCOUNT)),
    )))
}

pub fn chain_name_hash(chain_name: &str) -> [u8; 32] {
    keccak(&xdr_of(&sstr(chain_name)))
}

pub fn its_deploy_salt(chain_name: &str, deployer: &ScVal, salt: &[u8; 32]) -> [u8; 32] {
    keccak(&xdr_of(&svec(vec![
        sstr("interchain-token-salt"),
        sbytes(&chain_name_hash(chain_name)),
        deployer.clone(),
        sbytes(salt),
    ])))
}

pub fn its_canonical_salt(chain_name: &str, token: &ScVal) -> [u8; 32] {
    keccak(&xdr_of(&svec(vec![
        sstr("canonical-token-salt"),
        sbytes(&chain_name_hash(chain_name)),
        token.clone(),
    ])))
}

pub fn its_token_id(deploy_salt: &[u8; 32]) -> [u8; 32] {
    keccak(&xdr_of(&svec(vec![
        sstr("its-interchain-token-id"),
        saddr_zero_account(),
        sbytes(deploy_salt),
    ])))
}

/// address of a contract deployed by `deployer` (a contract) with `salt`
pub fn deployed_address(network_id: &[u8; 32], deployer: &[u8; 32], salt: &[u8; 32]) -> [u8; 32] {
    let pre = HashIdPreimage::ContractId(HashIdPreimageContractId {
        network_id: Hash(*network_id),
        contract_id_preimage: ContractIdPreimage::Address(ContractIdPreimageFromAddress {
            address: ScAddress::Contract(Hash(*deployer)),
            salt: Uint256(*salt),
        }),
    });
    sha256(&pre.to_xdr(Limits::none()).unwrap())
}

pub fn si128(v: i128) -> ScVal {
    ScVal::I128(soroban_sdk::xdr::Int128Parts {
        hi: (v >> 64) as i64,
        lo: v as u64,
    })
}
pub fn su32(v: u32) -> ScVal {
    ScVal::U32(v)
}
pub fn saddr(a: &soroban_sdk::Address) -> ScVal {
    ScVal::Address(a.try_into().unwrap())
}

/// Self-test of the independent recipes against the repository's golden files.
pub fn selftest(repo: &str) -> Result<usize, String> {
    let hx = |s: &str| -> [u8; 32] { hex::decode(s).unwrap().try_into().unwrap() };
    let keys = [
        ("0a245a2a2a5e8ec439d1377579a08fc78ea55647ba6fcb1f5d8a360218e8a985", 3u128),
        ("0b422cf449d900f6f8eb97f62e35811c62eb75feb84dfccef44a5c1c3dbac2ad", 2),
        ("18c34bf01a11b5ba21ea11b1678f3035ef753f0bdb1d5014ec21037e8f99e2a2", 4),
        ("f683ca8a6d7fe55f25599bb64b01edcc5eeb85fe5b63d3a4f0b3c32405005518", 4),
        ("fbb4b870e800038f1379697fae3058938c59b696f38dd0fdf2659c0cf3a5b663", 2),
    ];
    let set = MSet {
        signers: keys.iter().map(|(k, w)| MSigner { key: hx(k), weight: *w, key_id: None }).collect(),
        threshold: 8,
        nonce: hx("8784bf7be5a9baaeea47e12d9e8ad0dec29afcbc3617d97f771e3c24fa945dce"),
    };
    let p = format!("{}/contracts/axelar-gateway/src/testdata/weighted_signers_hash.golden", repo);
    let gold: Vec<String> = serde_json::from_str(&std::fs::read_to_string(&p).map_err(|e| format!("{}: {}", p, e))?).map_err(|e| e.to_string())?;
    if gold.len() != 2 || gold[0] != hex::encode(set.hash()) || gold[1] != hex::encode(set.rotation_data_hash()) {
        return Err("independent signer-set hash / rotation hash disagree with the golden file".into());
    }
    // messages approval hash
    let env = soroban_sdk::Env::default();
    let to_id = |s: &str| -> [u8; 32] {
        let a = soroban_sdk::Address::from_string(&soroban_sdk::String::from_str(&env, s));
        crate::host::addr_bytes(&a)
    };
    let phs = [
        "cfa347779c9b646ddf628c4da721976ceb998f1ab2c097b52e66a575c3975a6c",
        "fb5eb8245e3b8eb9d44f228ee142a3378f57d49fc95fa78d437ff8aa5dd564ba",
        "90e3761c0794fbbd8b563a0d05d83395e7f88f64f30eebb7c5533329f6653e84",
        "60e146cb9c548ba6e614a87910d8172c9d21279a3f8f4da256ff36e15b80ea30",
    ];
    let msgs: Vec<MMsg> = phs
        .iter()
        .enumerate()
        .map(|(i, h)| MMsg {
            source_chain: format!("source-{}", i + 1),
            message_id: format!("test-{}", i + 1),
            source_address: "CAAAAAAAAAAAAAAAAAAAAAAAAAAAAAAAAAAAAAAAAAAAAAAAAAAAHK3M".into(),
            contract: to_id("CAAAAAAAAAAAAAAAAAAAAAAAAAAAAAAAAAAAAAAAAAAAAAAAAAAAMDR4"),
            payload_hash: hx(h),
            account: false,
        })
        .collect();
    let p = format!("{}/contracts/axelar-gateway/src/testdata/messages_approval_hash.golden", repo);
    let gold = std::fs::read_to_string(&p).map_err(|e| format!("{}: {}", p, e))?;
    if gold.trim() != hex::encode(approve_data_hash(&msgs)) {
        return Err("independent approval data hash disagrees with the golden file".into());
    }
    let p = format!("{}/contracts/interchain-token-service/tests/testdata/canonical_token_id_derivation.golden", repo);
    let gold: Vec<String> = serde_json::from_str(&std::fs::read_to_string(&p).map_err(|e| format!("{}: {}", p, e))?).map_err(|e| e.to_string())?;
    if gold[0] != hex::encode(chain_name_hash("chain_name")) {
        return Err("independent chain-name hash disagrees with the golden file".into());
    }
    Ok(4)
}
