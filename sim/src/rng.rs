//! The only source of randomness in the simulator: splitmix64 seeding an
//! in-crate xoshiro256**.  No external PRNG crate, so the stream cannot drift
//! with a dependency.  Logging, digests and evidence never draw from it.

pub fn splitmix64(x: u64) -> u64 {
    let mut z = x.wrapping_add(0x9E37_79B9_7F4A_7C15);
    z = (z ^ (z >> 30)).wrapping_mul(0xBF58_476D_1CE4_E5B9);
    z = (z ^ (z >> 27)).wrapping_mul(0x94D0_49BB_1331_11EB);
    z ^ (z >> 31)
}

pub fn fnv64(bytes: &[u8]) -> u64 {
    let mut h: u64 = 0xcbf2_9ce4_8422_2325;
    for b in bytes {
        h ^= *b as u64;
        h = h.wrapping_mul(0x0000_0100_0000_01B3);
    }
    h
}

#[derive(Clone, Debug)]
pub struct Rng {
    s: [u64; 4],
}

impl Rng {
    pub fn new(seed: u64) -> Self {
        let mut x = seed;
        let mut s = [0u64; 4];
        for v in s.iter_mut() {
            x = splitmix64(x);
            *v = x;
        }
        if s == [0; 4] {
            s[0] = 1;
        }
        Rng { s }
    }

    pub fn next_u64(&mut self) -> u64 {
        let result = self.s[1].wrapping_mul(5).rotate_left(7).wrapping_mul(9);
        let t = self.s[1] << 17;
        self.s[2] ^= self.s[0];
        self.s[3] ^= self.s[1];
        self.s[1] ^= self.s[2];
        self.s[0] ^= self.s[3];
        self.s[2] ^= t;
        self.s[3] = self.s[3].rotate_left(45);
        result
    }

    /// uniform in 0..n (n > 0)
    pub fn below(&mut self, n: u64) -> u64 {
        debug_assert!(n > 0);
        // multiply-shift; bias is irrelevant here
        ((self.next_u64() as u128 * n as u128) >> 64) as u64
    }

    pub fn usize(&mut self, n: usize) -> usize {
        self.below(n as u64) as usize
    }

    /// inclusive range
    pub fn range(&mut self, lo: u64, hi: u64) -> u64 {
        lo + self.below(hi - lo + 1)
    }

    /// true with probability num/den
    pub fn chance(&mut self, num: u64, den: u64) -> bool {
        self.below(den) < num
    }

    pub fn pick<'a, T>(&mut self, xs: &'a [T]) -> &'a T {
        &xs[self.usize(xs.len())]
    }

    /// weighted pick: returns index
    pub fn weighted(&mut self, weights: &[u32]) -> usize {
        let total: u64 = weights.iter().map(|w| *w as u64).sum();
        if total == 0 {
            return 0;
        }
        let mut r = self.below(total);
        for (i, w) in weights.iter().enumerate() {
            if r < *w as u64 {
                return i;
            }
            r -= *w as u64;
        }
        weights.len() - 1
    }

    pub fn bytes32(&mut self) -> [u8; 32] {
        let mut out = [0u8; 32];
        for c in out.chunks_mut(8) {
            c.copy_from_slice(&self.next_u64().to_le_bytes());
        }
        out
    }

    pub fn fill(&mut self, buf: &mut [u8]) {
        for c in buf.chunks_mut(8) {
            let v = self.next_u64().to_le_bytes();
            let n = c.len();
            c.copy_from_slice(&v[..n]);
        }
    }

    pub fn u128(&mut self) -> u128 {
        ((self.next_u64() as u128) << 64) | self.next_u64() as u128
    }
}

/// A `std::hash::Hasher` with a fixed, toolchain-independent algorithm (FNV-1a
/// with a final avalanche) so that trace hashes stored in replay files stay
/// comparable.
#[derive(Clone)]
pub struct Fnv(pub u64);

impl Default for Fnv {
    fn default() -> Self {
        Fnv(0xcbf2_9ce4_8422_2325)
    }
}

impl Fnv {
    pub fn new() -> Self {
        Self::default()
    }
    pub fn done(&self) -> u64 {
        splitmix64(self.0)
    }
}

impl std::hash::Hasher for Fnv {
    fn finish(&self) -> u64 {
        self.done()
    }
    fn write(&mut self, bytes: &[u8]) {
        let mut h = self.0;
        // 8 bytes at a time: good enough as a change detector and much faster
        let mut chunks = bytes.chunks_exact(8);
        for c in &mut chunks {
            let v = u64::from_le_bytes([c[0], c[1], c[2], c[3], c[4], c[5], c[6], c[7]]);
            h = (h ^ v).wrapping_mul(0x0000_0100_0000_01B3);
            h = h.rotate_left(29);
        }
        for b in chunks.remainder() {
            h = (h ^ *b as u64).wrapping_mul(0x0000_0100_0000_01B3);
        }
        h = (h ^ bytes.len() as u64).wrapping_mul(0x0000_0100_0000_01B3);
        self.0 = h;
    }
}

pub fn hash_of<T: std::hash::Hash>(t: &T) -> u64 {
    use std::hash::Hasher;
    let mut h = Fnv::new();
    t.hash(&mut h);
    h.finish()
}
