//! Judging helpers shared by the worlds.

use crate::engine::Ctx;
use crate::host::{AbortStatus, CallResult, Outcome};

pub fn note_abort(ctx: &mut Ctx, res: &CallResult, props: &[&'static str]) -> bool {
    match res.abort {
        AbortStatus::Landed => ctx.count("F8.abort_landed"),
        AbortStatus::Completed => ctx.count("F8.abort_completed_under_limit"),
        AbortStatus::Skipped => ctx.count("F8.abort_skipped_no_cost_yet"),
        AbortStatus::NotRequested => {}
    }
    if let Some(l) = &res.abort_leak {
        let l = l.clone();
        let _ = props;
        ctx.harness(l);
        return false;
    }
    true
}

/// A call the model says must be refused: it must fail and change nothing.
pub fn must_fail(
    ctx: &mut Ctx,
    res: &CallResult,
    props: &[&'static str],
    class_accepted: &str,
    why: &str,
) -> bool {
    if !ctx.check(res.out.is_err(), props, class_accepted, || {
        format!("expected refusal ({}) but the call succeeded", why)
    }) {
        return false;
    }
    ctx.check(
        res.unchanged_full() && res.events.is_empty(),
        props,
        "refused-call-changed-state",
        || format!("refused call ({}) changed the ledger or emitted events", why),
    )
}

pub fn panic_guard(ctx: &mut Ctx, res: &CallResult, what: &str) -> bool {
    if let Outcome::Err(e) = &res.out {
        if e.panic && res.abort != AbortStatus::Completed {
            ctx.harness(format!(
                "{}: panic escaped the host under an unlimited budget: {}",
                what, e.text
            ));
            return false;
        }
    }
    true
}

/// common prologue after every judged call; false = stop
pub fn after_call(ctx: &mut Ctx, res: &CallResult, what: &str, props: &[&'static str]) -> bool {
    ctx.trace_str(res.out.class());
    if let Some(m) = &res.auth_demand_mismatch {
        // AuthVar::Everyone: the authorisation a principal was asked for must be the call as made
        let mut tags: Vec<&'static str> = vec!["C07", "C06"];
        tags.extend(props.iter().copied().filter(|p| *p != "C07" && *p != "C06"));
        if !ctx.check(false, &tags, "auth/demanded-authorisation-does-not-bind-the-call", || m.clone()) {
            return false;
        }
    }
    panic_guard(ctx, res, what) && note_abort(ctx, res, props)
}

/// Event expectations look only at the events the statement is about: those whose name
/// occurs in `expected` or in `also` (needed when nothing is expected).  Events with other
/// names (a refactoring may add some) are not the properties' business.
pub fn events_match(actual: &[crate::host::Ev], expected: &[crate::host::Ev], also: &[&str]) -> bool {
    let mut names: Vec<String> = expected.iter().map(|e| e.name()).collect();
    names.extend(also.iter().map(|s| s.to_string()));
    let relevant: Vec<&crate::host::Ev> = actual.iter().filter(|e| names.contains(&e.name())).collect();
    relevant.len() == expected.len() && relevant.iter().zip(expected.iter()).all(|(a, b)| **a == *b)
}
