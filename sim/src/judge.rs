//! Judging helpers shared by the worlds.

use crate::engine::Ctx;
use crate::host::{AbortStatus, CallResult, Outcome};

pub fn note_abort(ctx: &mut Ctx, res: &CallResult, props: &[&'static str]) -> bool {
    match res.abort {
        AbortStatus::Landed => ctx.count("F8.abort_landed"),
        AbortStatus::Completed => ctx.count("F8.abort_completed_under_limit"),
        AbortStatus::Skipped => ctx.count("F8.abort_skipped_no_cost_yet"),
        AbortStatus::NotRequested => {}
    }
    if let Some(l) = &res.abort_leak {
        let l = l.clone();
        let _ = props;
        ctx.harness(l);
        return false;
    }
    true
}

/// A call the model says must be refused: it must fail and change nothing.
pub fn must_fail(
    ctx: &mut Ctx,
    res: &CallResult,
    props: &[&'static str],
    class_accepted: &str,
    why: &str,
) -> bool {
    if !ctx.check(res.out.is_err(), props, class_accepted, || {
        format!("expected refusal ({}) but the call succeeded", why)
    }) {
        return false;
    }
    ctx.check(
        res.unchanged_full() && res.events.is_empty(),
        props,
        "refused-call-changed-state",
        || format!("refused call ({}) changed the ledger or emitted events", why),
    )
}

pub fn panic_guard(ctx: &mut Ctx, res: &CallResult, what: &str) -> bool {
    if let Outcome::Err(e) = &res.out {
        if e.panic && res.abort != AbortStatus::Completed {
            ctx.harness(format!(
                "{}: panic escaped the host under an unlimited budget: {}",
                what, e.text
            ));
            return false;
        }
    }
    true
}

/// common prologue after every judged call; false = stop
pub fn after_call(ctx: &mut Ctx, res: &CallResult, what: &str, props: &[&'static str]) -> bool {
    ctx.trace_str(res.out.class());
    panic_guard(ctx, res, what) && note_abort(ctx, res, props)
}
