//! Small vocabulary shared by the worlds: authorisation variants (fault F7),
//! string and payload specifications, clock moves (fault F10).

use crate::rng::Rng;
use serde::{Deserialize, Serialize};

/// Who authorises a call (fault kind F7 is every variant but `Right`).
#[derive(Serialize, Deserialize, Clone, Copy, Debug, PartialEq, Eq, Hash)]
pub enum AuthVar {
    /// the principal the entry point requires, for exactly this call
    Right,
    /// the previous holder of the role / a principal that used to qualify
    Former,
    /// the holder of another role of the same contract
    OtherRole,
    /// the beneficiary / counterparty named in the arguments
    Counterparty,
    /// the contract owner (where the owner is not the required principal)
    Owner,
    Stranger,
    Nobody,
    /// the right principal, but for a call with different arguments
    RightOtherArgs,
    /// the right principal for the root call only (nested invocations not covered)
    RootOnly,
    /// every address approves whatever is asked of it during this call (custom accounts with a
    /// permissive policy, pre-authorised sessions): nothing about authorisation is exercised, so
    /// that behaviour an exact authorisation tree would mask — moving another amount, paying
    /// another receiver than the call states — becomes observable
    Everyone,
}

impl AuthVar {
    pub fn is_fault(&self) -> bool {
        !matches!(self, AuthVar::Right | AuthVar::Everyone)
    }
    pub fn name(&self) -> &'static str {
        match self {
            AuthVar::Right => "right",
            AuthVar::Former => "former",
            AuthVar::OtherRole => "other_role",
            AuthVar::Counterparty => "counterparty",
            AuthVar::Owner => "owner",
            AuthVar::Stranger => "stranger",
            AuthVar::Nobody => "nobody",
            AuthVar::RightOtherArgs => "right_other_args",
            AuthVar::RootOnly => "root_only",
            AuthVar::Everyone => "everyone_permissive",
        }
    }
    pub fn pick_fault(rng: &mut Rng, allowed: &[AuthVar]) -> AuthVar {
        *rng.pick(allowed)
    }
}

#[derive(Serialize, Deserialize, Clone, Debug, PartialEq, Eq, Hash)]
pub enum StrSpec {
    Empty,
    Ascii(u8),
    Long(u16),
    NonAscii(u8),
    Lit(String),
}

impl StrSpec {
    pub fn resolve(&self) -> String {
        match self {
            StrSpec::Empty => String::new(),
            StrSpec::Ascii(n) => {
                let base = [
                    "ethereum",
                    "avalanche",
                    "0x4EFE356BEDeCC817cb89B4E9b796dB8bC188DC59",
                    "a",
                    "stellar-2024",
                    "Polygon",
                ];
                base[*n as usize % base.len()].to_string()
            }
            StrSpec::Long(n) => {
                let mut s = String::new();
                for i in 0..*n {
                    s.push((b'a' + (i % 26) as u8) as char);
                }
                s
            }
            StrSpec::NonAscii(n) => {
                let base = ["héllo-wörld", "链-チェーン", "Ωmega→β", "🚀🌕"];
                base[*n as usize % base.len()].to_string()
            }
            StrSpec::Lit(s) => s.clone(),
        }
    }
    pub fn gen(rng: &mut Rng) -> StrSpec {
        match rng.weighted(&[2, 10, 2, 3]) {
            0 => StrSpec::Empty,
            1 => StrSpec::Ascii(rng.below(6) as u8),
            2 => StrSpec::Long(rng.range(200, 400) as u16),
            _ => StrSpec::NonAscii(rng.below(4) as u8),
        }
    }
}

/// Payload bytes are a pure function of (len, tag).
#[derive(Serialize, Deserialize, Clone, Debug, PartialEq, Eq, Hash)]
pub struct PayloadSpec {
    pub len: u32,
    pub tag: u32,
}

impl PayloadSpec {
    pub fn resolve(&self) -> Vec<u8> {
        let mut r = Rng::new(0x7061_796c ^ ((self.tag as u64) << 32) ^ self.len as u64);
        let mut v = vec![0u8; self.len as usize];
        r.fill(&mut v);
        v
    }
    pub fn gen(rng: &mut Rng, allow_big: bool) -> PayloadSpec {
        let len = match rng.weighted(&[3, 3, 3, 3, 3, 6, if allow_big { 1 } else { 0 }]) {
            0 => 0,
            1 => 1,
            2 => 31,
            3 => 32,
            4 => 33,
            5 => rng.range(2, 200) as u32,
            _ => rng.range(10_000, 40_000) as u32,
        };
        PayloadSpec {
            len,
            tag: rng.below(1 << 20) as u32,
        }
    }
}

#[derive(Serialize, Deserialize, Clone, Debug, PartialEq, Eq, Hash)]
pub enum ClockMove {
    /// no time passes
    Zero,
    Plus(u32),
    /// to (last rotation of gateway `gw` + minimum delay + delta); never backwards
    Boundary { gw: u8, delta: i8 },
    /// jump by 2^32 seconds
    Far,
}

pub fn opt_abort(rng: &mut Rng, enabled: bool, per_mille: u64) -> Option<u16> {
    if enabled && rng.chance(per_mille, 1000) {
        Some(rng.range(20, 990) as u16)
    } else {
        None
    }
}

/// Principals an authorisation variant can resolve to, for one call.
#[derive(Clone, Copy, Debug)]
pub struct AuthCtx {
    /// the principal the entry point requires
    pub right: usize,
    pub former: Option<usize>,
    pub other_role: usize,
    pub counterparty: usize,
    pub owner: usize,
    pub stranger: usize,
}

/// (who authorises, whether it authorises different arguments)
pub fn resolve_auth(sim: &mut crate::host::Sim, a: AuthVar, c: &AuthCtx) -> Option<(usize, bool)> {
    if a == AuthVar::Everyone {
        sim.permissive_next = true;
    }
    match a {
        AuthVar::Right | AuthVar::RootOnly | AuthVar::Everyone => Some((c.right, false)),
        AuthVar::RightOtherArgs => Some((c.right, true)),
        AuthVar::Former => Some((c.former.unwrap_or(c.stranger), false)),
        AuthVar::OtherRole => Some((c.other_role, false)),
        AuthVar::Counterparty => Some((c.counterparty, false)),
        AuthVar::Owner => Some((c.owner, false)),
        AuthVar::Stranger => Some((c.stranger, false)),
        AuthVar::Nobody => None,
    }
}

/// Ledgers close: sequence += dseq (bounded so that persistent / instance entries never reach
/// archival, DESIGN 1.2), time += 5 s per ledger.  Temporary entries may expire.
pub fn advance_ledgers(sim: &crate::host::Sim, ctx: &mut crate::engine::Ctx, dseq: u32) {
    let seq = sim.seq();
    let room = (sim.start_seq + crate::host::MAX_SEQ_ADVANCE).saturating_sub(seq);
    let d = dseq.min(room);
    sim.set_seq(seq + d);
    sim.set_time(sim.now().saturating_add(5 * d as u64));
    ctx.sim_ledgers += d as u64;
    ctx.sim_seconds = ctx.sim_seconds.saturating_add(5 * d as u64);
    ctx.count("F10.ledger_advance");
    ctx.trace_u64(d as u64);
}
