//! The seams: one real soroban host per run, exact authorisation forests,
//! the ledger clock, budget-exhaustion aborts, whole-ledger digests and event
//! capture.  Everything the contracts can observe goes through here.

use crate::rng::Fnv;
use soroban_env_host::DiagnosticLevel;
use soroban_sdk::testutils::{EnvTestConfig, Ledger as _, LedgerInfo, MockAuthContract};
use soroban_sdk::xdr::{
    self, ContractEventBody, ContractEventType, Hash, InvokeContractArgs, LedgerEntryData,
    LedgerKey, Limits, ScAddress, ScVal, SorobanAddressCredentials, SorobanAuthorizationEntry,
    SorobanAuthorizedFunction, SorobanAuthorizedInvocation, SorobanCredentials, WriteXdr,
};
use soroban_sdk::{Address, Env, IntoVal, Symbol, TryFromVal, Val, Vec as SVec};
use std::collections::{BTreeMap, BTreeSet};
use std::hash::Hasher;
use std::panic::{catch_unwind, AssertUnwindSafe};

pub const MIN_PERSISTENT_TTL: u32 = 4_000_000;
pub const MAX_ENTRY_TTL: u32 = 6_312_000;
/// runs keep the total ledger-sequence advance below this, so persistent and
/// instance entries never reach archival (see DESIGN §1.2)
pub const MAX_SEQ_ADVANCE: u32 = 2_600_000;

#[derive(Clone, Debug)]
pub enum Outcome {
    Ok(Val),
    Err(ErrInfo),
}

#[derive(Clone, Debug)]
pub struct ErrInfo {
    pub text: String,
    pub budget: bool,
    pub panic: bool,
    pub contract_code: Option<u32>,
}

impl Outcome {
    pub fn is_ok(&self) -> bool {
        matches!(self, Outcome::Ok(_))
    }
    pub fn is_err(&self) -> bool {
        !self.is_ok()
    }
    pub fn class(&self) -> &'static str {
        if self.is_ok() {
            "ok"
        } else {
            "err"
        }
    }
    pub fn val(&self) -> Option<Val> {
        match self {
            Outcome::Ok(v) => Some(*v),
            _ => None,
        }
    }
    pub fn err_text(&self) -> String {
        match self {
            Outcome::Ok(_) => "ok".into(),
            Outcome::Err(e) => e.text.clone(),
        }
    }
}

#[derive(Clone, Debug, PartialEq, Eq)]
pub struct Ev {
    pub contract: [u8; 32],
    pub topics: Vec<ScVal>,
    pub data: ScVal,
}

impl Ev {
    pub fn name(&self) -> String {
        match self.topics.first() {
            Some(ScVal::Symbol(s)) => s.to_utf8_string_lossy(),
            _ => String::new(),
        }
    }
}

#[derive(Clone)]
pub struct AuthNode {
    pub contract: Address,
    pub func: &'static str,
    pub args: SVec<Val>,
    pub subs: Vec<AuthNode>,
}

impl AuthNode {
    pub fn new(contract: &Address, func: &'static str, args: SVec<Val>) -> Self {
        AuthNode {
            contract: contract.clone(),
            func,
            args,
            subs: vec![],
        }
    }
    pub fn with(mut self, sub: AuthNode) -> Self {
        self.subs.push(sub);
        self
    }
    /// Does the authorisation the contracts actually demanded (recorded by the host while every
    /// address approves everything) fall within this tree?  The root must be the same call with the
    /// same arguments; every demanded sub-invocation must be covered by one of this node's.
    pub fn covers(&self, inv: &SorobanAuthorizedInvocation) -> bool {
        fn cov(want: &SorobanAuthorizedInvocation, got: &SorobanAuthorizedInvocation) -> bool {
            want.function == got.function && got.sub_invocations.iter().all(|g| want.sub_invocations.iter().any(|w| cov(w, g)))
        }
        cov(&self.to_xdr(), inv)
    }
    fn to_xdr(&self) -> SorobanAuthorizedInvocation {
        SorobanAuthorizedInvocation {
            function: SorobanAuthorizedFunction::ContractFn(InvokeContractArgs {
                contract_address: ScAddress::Contract(Hash(addr_bytes(&self.contract))),
                function_name: self.func.try_into().unwrap(),
                args: self.args.clone().try_into().unwrap(),
            }),
            sub_invocations: self
                .subs
                .iter()
                .map(|s| s.to_xdr())
                .collect::<Vec<_>>()
                .try_into()
                .unwrap(),
        }
    }
}

#[derive(Clone)]
pub struct AuthEntry {
    pub who: Address,
    pub root: AuthNode,
}

#[derive(Clone, Copy, Debug, PartialEq, Eq)]
pub enum AbortStatus {
    NotRequested,
    /// no cost known yet for this entry point, so no limit could be chosen
    Skipped,
    /// the limited attempt ran to completion (it is then the judged attempt)
    Completed,
    /// the limited attempt died inside the call; retried without limit
    Landed,
}

pub struct CallResult {
    pub out: Outcome,
    pub events: Vec<Ev>,
    pub pre: (u64, u64),
    pub post: (u64, u64),
    pub abort: AbortStatus,
    /// an aborted attempt left a trace (ledger entry or event) behind
    pub abort_leak: Option<String>,
    pub cpu: u64,
    /// AuthVar::Everyone only: an authorisation the contracts demanded of a principal the harness would
    /// have signed for that is not covered by what the harness would have signed (see AuthNode::covers)
    pub auth_demand_mismatch: Option<String>,
}

impl CallResult {
    pub fn unchanged_full(&self) -> bool {
        self.pre.0 == self.post.0
    }
    pub fn unchanged_data(&self) -> bool {
        self.pre.1 == self.post.1
    }
}

pub struct Sim {
    pub env: Env,
    ev_cursor: usize,
    nonce: i64,
    mocked: BTreeSet<[u8; 32]>,
    last_cost: BTreeMap<&'static str, u64>,
    pub counters: BTreeMap<String, u64>,
    pub start_ts: u64,
    pub start_seq: u32,
    /// the next `call` runs with every address granting every authorisation (AuthVar::Everyone)
    pub permissive_next: bool,
}

pub fn addr_bytes(a: &Address) -> [u8; 32] {
    let sc: ScAddress = a.try_into().unwrap();
    match sc {
        ScAddress::Contract(Hash(h)) => h,
        ScAddress::Account(xdr::AccountId(xdr::PublicKey::PublicKeyTypeEd25519(xdr::Uint256(
            h,
        )))) => h,
    }
}

/// The account address (`G...`) that carries the same 32 bytes as this contract address (`C...`):
/// a different address, identical under any key that drops the address kind.
pub fn account_twin(env: &Env, a: &Address) -> Address {
    let sc = ScVal::Address(ScAddress::Account(xdr::AccountId(xdr::PublicKey::PublicKeyTypeEd25519(xdr::Uint256(addr_bytes(a))))));
    Address::try_from_val(env, &sc).unwrap()
}

/// the account address whose key is 32 zero bytes (GAAAA...AWHF)
pub fn zero_account(env: &Env) -> Address {
    let sc = ScVal::Address(ScAddress::Account(xdr::AccountId(xdr::PublicKey::PublicKeyTypeEd25519(xdr::Uint256([0u8; 32])))));
    Address::try_from_val(env, &sc).unwrap()
}

impl Sim {
    pub fn new(ts: u64, seq: u32) -> Sim {
        let env = Env::new_with_config(EnvTestConfig {
            capture_snapshot_at_drop: false,
        });
        env.host()
            .set_diagnostic_level(DiagnosticLevel::None)
            .unwrap();
        env.host().set_top_contract_invocation_hook(None).unwrap();
        env.ledger().set(LedgerInfo {
            protocol_version: 22,
            sequence_number: seq,
            timestamp: ts,
            network_id: [0; 32],
            base_reserve: 0,
            min_persistent_entry_ttl: MIN_PERSISTENT_TTL,
            min_temp_entry_ttl: 16,
            max_entry_ttl: MAX_ENTRY_TTL,
        });
        #[allow(deprecated)]
        env.budget().reset_unlimited();
        Sim {
            env,
            ev_cursor: 0,
            nonce: 1,
            mocked: BTreeSet::new(),
            last_cost: BTreeMap::new(),
            counters: BTreeMap::new(),
            start_ts: ts,
            start_seq: seq,
            permissive_next: false,
        }
    }

    pub fn count(&mut self, key: &str) {
        *self.counters.entry(key.to_string()).or_insert(0) += 1;
    }
    pub fn count_n(&mut self, key: &str, n: u64) {
        *self.counters.entry(key.to_string()).or_insert(0) += n;
    }

    // ----- clock -----
    pub fn now(&self) -> u64 {
        self.env.ledger().timestamp()
    }
    pub fn seq(&self) -> u32 {
        self.env.ledger().sequence()
    }
    pub fn set_time(&self, ts: u64) {
        self.env.ledger().set_timestamp(ts);
    }
    pub fn set_seq(&self, seq: u32) {
        self.env.ledger().set_sequence_number(seq);
    }

    // ----- authorisation -----
    /// Install exactly this authorisation forest (empty = nobody authorises
    /// anything).  Entries are single-use and refer to fresh principals only.
    pub fn set_auth(&mut self, entries: &[AuthEntry]) {
        if self.permissive_next {
            // AuthVar::Everyone: recording mode, every require_auth of this call is granted
            self.env.mock_all_auths_allowing_non_root_auth();
            return;
        }
        let seq = self.seq();
        let mut out = Vec::with_capacity(entries.len());
        for e in entries {
            let b = addr_bytes(&e.who);
            let is_contract = matches!(ScAddress::try_from(&e.who), Ok(ScAddress::Contract(_)));
            if is_contract && self.mocked.insert(b) {
                self.env.register_at(&e.who, MockAuthContract, ());
            }
            self.nonce += 1;
            out.push(SorobanAuthorizationEntry {
                root_invocation: e.root.to_xdr(),
                credentials: SorobanCredentials::Address(SorobanAddressCredentials {
                    address: (&e.who).try_into().unwrap(),
                    nonce: self.nonce,
                    signature_expiration_ledger: seq + 1000,
                    signature: ScVal::Void,
                }),
            });
        }
        self.env.set_auths(&out);
    }

    /// Set-up only (minting initial balances and the like).
    pub fn setup_all_auths(&self) {
        self.env.mock_all_auths();
    }
    pub fn end_setup(&mut self) {
        self.env.set_auths(&[]);
        self.drain_events();
    }

    // ----- invocation -----
    fn raw_invoke(&self, contract: &Address, func: &str, args: SVec<Val>) -> Outcome {
        let env = &self.env;
        let r = catch_unwind(AssertUnwindSafe(|| {
            env.try_invoke_contract::<Val, soroban_sdk::Error>(
                contract,
                &Symbol::new(env, func),
                args,
            )
        }));
        match r {
            Ok(Ok(Ok(v))) => Outcome::Ok(v),
            Ok(Ok(Err(_))) => Outcome::Err(ErrInfo {
                text: "conversion".into(),
                budget: false,
                panic: false,
                contract_code: None,
            }),
            Ok(Err(Ok(e))) => {
                let text = format!("{:?}", e);
                let budget = e.is_type(xdr::ScErrorType::Budget);
                let contract_code = if e.is_type(xdr::ScErrorType::Contract) {
                    Some(e.get_code())
                } else {
                    None
                };
                Outcome::Err(ErrInfo {
                    text,
                    budget,
                    panic: false,
                    contract_code,
                })
            }
            Ok(Err(Err(inv))) => Outcome::Err(ErrInfo {
                text: format!("{:?}", inv),
                budget: false,
                panic: false,
                contract_code: None,
            }),
            Err(p) => {
                let text = if let Some(s) = p.downcast_ref::<String>() {
                    s.clone()
                } else if let Some(s) = p.downcast_ref::<&str>() {
                    s.to_string()
                } else {
                    "panic".to_string()
                };
                Outcome::Err(ErrInfo {
                    budget: text.contains("Budget"),
                    text,
                    panic: true,
                    contract_code: None,
                })
            }
        }
    }

    /// Read-only / set-up helper: no auth, no digests, unlimited budget.
    pub fn query(&mut self, contract: &Address, func: &str, args: SVec<Val>) -> Outcome {
        let o = self.raw_invoke(contract, func, args);
        o
    }

    /// One transaction as the ledger sees it: exact authorisation, optional
    /// abort by budget exhaustion followed by the honest retry, ledger digests
    /// before and after, the non-failed contract events it produced.
    pub fn call(
        &mut self,
        contract: &Address,
        func: &'static str,
        args: SVec<Val>,
        auth: &[AuthEntry],
        abort: Option<u16>,
    ) -> CallResult {
        self.drain_events();
        self.set_auth(auth);
        let pre = self.digest();
        let mut status = AbortStatus::NotRequested;
        let mut leak = None;
        #[allow(deprecated)]
        let mut budget = self.env.budget();
        if let Some(permille) = abort {
            match self.last_cost.get(func).copied() {
                None => status = AbortStatus::Skipped,
                Some(cost) => {
                    let saved_map = self.env.host().with_mut_storage(|st| Ok(st.map.clone())).unwrap();
                    let limit = (cost as u128 * permille as u128 / 1000).max(1) as u64;
                    budget.reset_limits(limit, u64::MAX / 4);
                    let out = self.raw_invoke(contract, func, args.clone());
                    let consumed = budget.cpu_instruction_cost();
                    let died = match &out {
                        Outcome::Err(e) => e.budget || e.panic || consumed >= limit,
                        _ => false,
                    };
                    budget.reset_unlimited();
                    if died {
                        status = AbortStatus::Landed;
                        self.count("F8.abort_landed");
                        let mid = self.digest();
                        let _ = self.drain_events();
                        if mid != pre {
                            // The test host skips its own rollback when the budget is
                            // already exhausted while it unwinds (it tries to rebuild
                            // its wasm module cache first and gives up).  On the network
                            // a failed transaction's writes are discarded by the ledger,
                            // whatever the contracts did; the simulator does the same.
                            self.count("F8.host_rollback_incomplete_ledger_restored");
                            let saved = saved_map.clone();
                            self.env
                                .host()
                                .with_mut_storage(|st| {
                                    st.map = saved;
                                    Ok(())
                                })
                                .unwrap();
                            if self.digest() != pre {
                                leak = Some("could not restore the ledger after an aborted invocation".to_string());
                            }
                        }
                        // honest retry with a fresh copy of the same authorisation
                        self.set_auth(auth);
                    } else {
                        self.count("F8.abort_completed_under_limit");
                        self.permissive_next = false;
                        let events = self.drain_events();
                        let post = self.digest();
                        return CallResult {
                            out,
                            events,
                            pre,
                            post,
                            abort: AbortStatus::Completed,
                            abort_leak: None,
                            cpu: 0,
                            auth_demand_mismatch: None,
                        };
                    }
                }
            }
        }
        budget.reset_unlimited();
        let out = self.raw_invoke(contract, func, args);
        let cpu = budget.cpu_instruction_cost();
        if out.is_ok() {
            self.last_cost.insert(func, cpu);
        }
        let events = self.drain_events();
        let post = self.digest();
        let mut auth_demand_mismatch = None;
        if self.permissive_next {
            self.permissive_next = false;
            self.count("F7.everyone_permissive_call");
            if out.is_ok() {
                // what did the contracts actually ask of the principals the harness would have signed for?
                let recorded = self.env.host().get_authenticated_authorizations().unwrap_or_default();
                for (who, inv) in recorded.iter() {
                    let mine: Vec<&AuthEntry> = auth.iter().filter(|e| ScAddress::try_from(&e.who).ok().as_ref() == Some(who)).collect();
                    if mine.is_empty() {
                        continue;
                    }
                    self.count("probe.recorded_authorisation_demand_compared");
                    if !mine.iter().any(|e| e.root.covers(inv)) {
                        auth_demand_mismatch = Some(format!("{}: the contracts asked {:?} to authorise {:?}, which is not the call (and nested calls) as made", func, who, inv));
                    }
                }
            }
        }
        CallResult {
            out,
            events,
            pre,
            post,
            abort: status,
            abort_leak: leak,
            cpu,
            auth_demand_mismatch,
        }
    }

    // ----- events -----
    /// contract events (not diagnostics) of calls that did not fail, emitted
    /// since the last drain
    pub fn drain_events(&mut self) -> Vec<Ev> {
        let all = self.env.host().get_events().unwrap().0;
        let mut out = vec![];
        for he in all.iter().skip(self.ev_cursor) {
            if he.failed_call {
                continue;
            }
            if he.event.type_ != ContractEventType::Contract {
                continue;
            }
            let contract = match &he.event.contract_id {
                Some(Hash(h)) => *h,
                None => [0u8; 32],
            };
            let ContractEventBody::V0(b) = &he.event.body;
            out.push(Ev {
                contract,
                topics: b.topics.to_vec(),
                data: b.data.clone(),
            });
        }
        self.ev_cursor = all.len();
        out
    }

    // ----- ledger digest -----
    /// (full, data): hash over every ledger entry (key, value, live-until) and
    /// over (key, value) only.  Authorisation nonces are bookkeeping of the
    /// host's auth manager, not contract state, and are left out; contract code
    /// blobs are content-addressed, so only their key is hashed.
    pub fn digest(&self) -> (u64, u64) {
        let host = self.env.host();
        let budget = host.budget_cloned();
        host.with_mut_storage(|s| {
            let mut full = Fnv::new();
            let mut data = Fnv::new();
            for (k, v) in s.map.iter(&budget)? {
                if let LedgerKey::ContractData(cd) = k.as_ref() {
                    if matches!(cd.key, ScVal::LedgerKeyNonce(_)) {
                        continue;
                    }
                }
                // an absent entry and a never-touched key are the same thing
                // (the recording footprint inserts `None` for every key read)
                let Some((entry, live)) = v else { continue };
                let kx = k.to_xdr(Limits::none()).unwrap();
                full.write(&kx);
                data.write(&kx);
                {
                    {
                        if !matches!(entry.data, LedgerEntryData::ContractCode(_)) {
                            let ex = entry.data.to_xdr(Limits::none()).unwrap();
                            full.write(&ex);
                            data.write(&ex);
                        }
                        full.write(&live.unwrap_or(0).to_le_bytes());
                    }
                }
            }
            Ok((full.done(), data.done()))
        })
        .unwrap()
    }

    /// per-entry hashes, for diagnosing what an operation touched
    pub fn entry_hashes(&self) -> Vec<(String, u64, u32)> {
        let host = self.env.host();
        let budget = host.budget_cloned();
        host.with_mut_storage(|s| {
            let mut out = vec![];
            for (k, v) in s.map.iter(&budget)? {
                let Some((entry, live)) = v else { continue };
                let mut h = Fnv::new();
                h.write(&entry.data.to_xdr(Limits::none()).unwrap());
                out.push((format!("{:?}", k).chars().take(300).collect(), h.done(), live.unwrap_or(0)));
            }
            Ok(out)
        })
        .unwrap()
    }

    /// digest restricted to the contract-data entries of one contract
    pub fn digest_of(&self, contract: &Address) -> u64 {
        let host = self.env.host();
        let budget = host.budget_cloned();
        let want = ScAddress::Contract(Hash(addr_bytes(contract)));
        host.with_mut_storage(|s| {
            let mut h = Fnv::new();
            for (k, v) in s.map.iter(&budget)? {
                if let LedgerKey::ContractData(cd) = k.as_ref() {
                    if cd.contract != want || matches!(cd.key, ScVal::LedgerKeyNonce(_)) {
                        continue;
                    }
                    h.write(&k.to_xdr(Limits::none()).unwrap());
                    if let Some((entry, _)) = v {
                        h.write(&entry.data.to_xdr(Limits::none()).unwrap());
                    }
                }
            }
            Ok(h.done())
        })
        .unwrap()
    }

    // ----- value helpers -----
    pub fn sv<T: IntoVal<Env, Val>>(&self, t: T) -> ScVal {
        let v: Val = t.into_val(&self.env);
        ScVal::try_from_val(&self.env, &v).unwrap()
    }
    pub fn val_to_sc(&self, v: &Val) -> ScVal {
        ScVal::try_from_val(&self.env, v).unwrap()
    }
    pub fn ev<T: IntoVal<Env, SVec<Val>>, D: IntoVal<Env, Val>>(
        &self,
        contract: &Address,
        topics: T,
        data: D,
    ) -> Ev {
        let tv: SVec<Val> = topics.into_val(&self.env);
        let topics = tv.iter().map(|v| self.val_to_sc(&v)).collect();
        Ev {
            contract: addr_bytes(contract),
            topics,
            data: self.sv(data),
        }
    }
}

pub fn install_quiet_panic_hook() {
    if std::env::var("AXSIM_PANIC").is_ok() {
        std::panic::set_hook(Box::new(|info| {
            if let Some(l) = info.location() {
                if l.file().starts_with("src/") {
                    eprintln!("panic at {}:{}: {}", l.file(), l.line(), info);
                }
            }
        }));
    } else {
        std::panic::set_hook(Box::new(|_| {}));
    }
}
