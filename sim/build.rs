fn main() {}
